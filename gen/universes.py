"""Deterministic key universes for engine B (explicit-state search over the
real index).  A universe = base keys (always inserted first) + delta keys (the
alphabet inserts/removes them) + absent probe keys.  Keys are hex strings;
uint64 keys have 16 hex digits (byte b0 first).  See DESIGN.md section 3/5.0.
"""
import subprocess


def key(*bs):
    bs = list(bs) + [0] * (8 - len(bs))
    return "".join("%02x" % b for b in bs)


def g1(xs, lead=0):
    return [key(lead, 0, 0, 0, 0, 0, 0, x) for x in xs]


def U(id, base, delta, probes=(), variants=(0,), kind="u64", tiers=("quick", "thorough"), deep=False, vlens=None,
      full_prefix_word=False):
    assert len(set(base) | set(delta)) == len(base) + len(delta), "duplicate key in universe " + id
    if not deep:
        # clear() lets any two keys be alone in the tree: outside the known finding no two keys of a universe may share more
        # than the 7 bytes an inner node's prefix can hold
        ks = [bytes.fromhex(k) for k in list(base) + list(delta)]
        for i in range(len(ks)):
            for j in range(i + 1, len(ks)):
                n = 0
                while n < min(len(ks[i]), len(ks[j])) and ks[i][n] == ks[j][n]:
                    n += 1
                assert n <= 7, "universe %s: keys %s and %s share %d bytes" % (id, ks[i].hex(), ks[j].hex(), n)
    return dict(id=id, kind=kind, base=list(base), delta=list(delta), probes=list(probes), variants=list(variants),
                tiers=tiers, deep=deep, vlens=vlens, full_prefix_word=full_prefix_word)


def u64_universes():
    out = []
    n1 = [key(1, 0, 0, 0, 0, 0, 0, x) for x in (1, 2, 3, 4, 5, 6)]
    n2 = [key(2, 0, 0, 0, 0, 0, 0, x) for x in (1, 2, 3)]
    # G2: two levels, collapse of the root into the inner node, leaf split, I4 <-> I16 below an I4 parent
    out.append(U("g2-two-level", [key(3)], n1 + n2 + [key(4)], probes=[key(1, 0, 0, 9), key(5)], variants=(0, 6)))
    # G1 4/5 boundary at the root + keys that split the 7-byte prefix at several positions
    out.append(U("g1-i4-i16", g1([1, 2, 3]), g1([4, 5, 6, 7, 8]) + [key(0, 0, 0, 9), key(0, 0, 0, 0, 0, 0, 7), key(9), key(0, 0, 0, 0, 0, 0, 7, 1)],
                 probes=[key(0, 0, 0, 0, 0, 0, 0, 0x80), key(0, 0, 1)], variants=(0,)))
    # G3: prefix split at every position of a 7-byte prefix (and collapse with prepend), two siblings coming and going
    out.append(U("g3-prefix-split", g1([1, 2]),
                 [key(*([0] * j + [9])) for j in range(0, 7)] + g1([3]) + [key(0, 0, 0, 9, 1)], probes=[key(0, 0, 0, 0, 5)], variants=(1,)))
    # G4: leaf split with every shared length
    out.append(U("g4-leaf-split", [],
                 [key(7, 7, 7, 7, 7, 7, 7, 7)] + [key(*([7] * j + [8])) for j in range(0, 8)] + [key(7, 7, 7, 7, 7, 7, 7, 9)],
                 probes=[key(7, 7, 7, 7, 6)], variants=(0,)))
    # G5: the geometry of G3/G4 with pairwise distinct bytes (prefix 01 02 03 04 05 06 07): a prefix handled at the wrong
    # offset, with the wrong shift or from the wrong end cannot hide behind equal bytes
    d7 = [1, 2, 3, 4, 5, 6, 7]
    out.append(U("g5-distinct-bytes", [key(*(d7 + [8])), key(*(d7 + [9]))],
                 [key(*(d7[:j] + [0xf0 + j])) for j in range(0, 7)] + [key(*(d7 + [0x0a])), key(*(d7[:3] + [0xf3, 1]))],
                 probes=[key(1, 2, 3, 4, 0x55)], variants=(1,)))
    # three levels, inner nodes with prefixes of different lengths
    out.append(U("three-level", [key(1, 1, 1), key(2)],
                 [key(1, 1, 2), key(1, 2, 1), key(1, 2, 2), key(1, 1, 1, 0, 0, 0, 0, 1), key(3), key(1, 3), key(1, 1, 3), key(1, 2, 1, 1),
                  key(1, 2, 1, 2)],
                 probes=[key(1, 1, 4), key(1, 0)], variants=(2,)))
    # 16/17 boundary: I16 <-> I48 (slot layouts multiply the implementation states)
    out.append(U("g1-i16-i48", g1(range(1, 14)), g1([14, 15, 16, 17, 18, 19]), probes=g1([0, 200]), variants=()))
    # 48/49 boundary
    out.append(U("g1-i48-i256", g1(range(1, 46)), g1([46, 47, 48, 49, 50, 51]), probes=g1([0, 200]), variants=()))
    # an I48 whose children sit at high, sparse key bytes (seek has to walk the 256-entry index map, not the 48 slots)
    out.append(U("g1-i48-high", g1([0x10 + 8 * i for i in range(18)]), g1([0x34, 0x9c, 0xff, 0x00]), probes=g1([0x0f, 0xfe]),
                 variants=()))
    # an I256 with children at the extreme bytes 00 and FF and gaps next to them
    out.append(U("g1-i256-high", g1([5 * i for i in range(50)] + [0xff]), g1([0xfa, 0x03, 0xfd]), probes=g1([0x01, 0xfe]), variants=()))
    # small nodes with children at the extreme bytes
    out.append(U("g1-extremes", g1([0x00, 0xff]), g1([0x01, 0xfe, 0x80, 0x7f, 0x02, 0xfd]), probes=g1([0x03, 0xfc]), variants=(0,)))
    # fill to 256 and come back
    out.append(U("g1-full-256", g1([x for x in range(256) if x not in (0, 100, 101, 200, 255)]), g1([0, 100, 101, 200, 255]),
                 probes=[key(0, 0, 0, 0, 0, 0, 1)], variants=()))
    # boundaries below an I16 parent with its own prefix
    wide = [key(9, 9, x) for x in (3, 4, 5, 6, 7)]
    out.append(U("below-i16", wide, [key(9, 9, 1, 0, 0, 0, 0, x) for x in (1, 2, 3, 4, 5)] + [key(9, 9, 2), key(9, 9, 8), key(9, 8)],
                 probes=[key(9, 7), key(9, 9, 1, 1)], variants=(0,)))
    # sparse keys, no base
    out.append(U("sparse", [],
                 ["0123456789abcdef", "0123456789abcdee", "01234567ffffffff", "fedcba9876543210", "0000000000000000",
                  "ffffffffffffffff", "0123000000000000", "0123456789abcd00", "8000000000000000"], probes=["7fffffffffffffff"], variants=(0,)))
    # the stale-prefix-byte argument of DESIGN.md section 3, cross-checked with the full prefix word in the state identity
    out.append(U("g3-full-prefix-word", g1([1, 2]), [key(9), key(0, 9), key(0, 0, 9), key(0, 0, 0, 9)], probes=[], variants=(1,),
                 tiers=("thorough",), full_prefix_word=True))
    # thorough: larger delta sets
    out.append(U("g2-two-level-big", [key(3)],
                 n1 + [key(1, 0, 0, 0, 0, 0, 0, 7)] + n2 + [key(2, 0, 0, 0, 0, 0, 0, 4), key(4), key(1, 0, 0, 0, 0, 0, 1, 1)],
                 probes=[key(1, 0, 0, 9), key(5)], variants=(0, 6), tiers=("thorough",)))
    # (sizes chosen so that the slowest build - assertions on, fault mode - closes the universe in minutes: every further
    # delta key multiplies the inode_48 slot layouts)
    out.append(U("g1-i16-i48-big", g1(range(1, 14)), g1([14, 15, 16, 17, 18, 19, 20]), probes=g1([0, 200]), variants=(),
                 tiers=("thorough",)))
    out.append(U("g1-i48-i256-big", g1(range(1, 45)), g1([45, 46, 47, 48, 49, 50, 51]), probes=g1([0, 200]), variants=(),
                 tiers=("thorough",)))
    return out


def _stretch(k, n):
    """uint64 pattern -> n-byte key (truncate or extend with a constant tail)"""
    b = bytes.fromhex(k)
    if n <= 8:
        return b[8 - n:].hex() if False else b[:n].hex()
    return (b + bytes([0xA5] * (n - 8))).hex()


def kv_universes(keygen=None):
    out = []
    # one-byte keys: a single node without prefix, I4 <-> I16 <-> I48
    out.append(U("kv1-classes", ["%02x" % x for x in (1, 2, 3)], ["%02x" % x for x in (4, 5, 6, 7, 0x80, 0xfe)],
                 probes=["00", "ff"], variants=(0,), kind="kv"))
    out.append(U("kv1-i16-i48", ["%02x" % x for x in range(1, 15)], ["%02x" % x for x in (15, 16, 17, 18, 19)],
                 probes=["00", "ff"], variants=(), kind="kv"))
    # three-byte keys, two levels
    out.append(U("kv3-two-level", ["030000"],
                 ["0100%02x" % x for x in (1, 2, 3, 4, 5)] + ["020001", "020002", "010100", "0101ff"],
                 probes=["000000", "ffffff", "010009"], variants=(0, 5), kind="kv"))
    # eight-byte keys (same geometry as uint64)
    out.append(U("kv8-prefix-split", [k for k in g1([1, 2])], [key(*([0] * j + [9])) for j in range(0, 7)] + g1([3]),
                 probes=[key(0, 0, 0, 0, 5)], variants=(1,), kind="kv"))
    # the same with pairwise distinct bytes (see g5-distinct-bytes)
    d7 = [1, 2, 3, 4, 5, 6, 7]
    out.append(U("kv8-distinct-bytes", [key(*(d7 + [8])), key(*(d7 + [9]))],
                 [key(*(d7[:j] + [0xf0 + j])) for j in range(0, 7)] + [key(*(d7 + [0x0a]))],
                 probes=[key(1, 2, 3, 4, 0x55)], variants=(1,), kind="kv"))
    # twelve-byte keys: the uint64 geometry with a four-byte tail (shared runs <= 7 below every node)
    g2 = [key(3)] + [key(1, 0, 0, 0, 0, 0, 0, x) for x in (1, 2, 3, 4, 5)] + [key(2, 0, 0, 0, 0, 0, 0, 1), key(2, 0, 0, 0, 0, 0, 0, 2), key(4)]
    g2 = [_stretch(k, 12) for k in g2]
    out.append(U("kv12-two-level", g2[:1], g2[1:], probes=[_stretch(key(1, 0, 0, 9), 12)], variants=(0,), kind="kv"))
    # forty-byte keys: divergence late in the key, shared runs <= 7 below every node (a chain of prefixes is not needed)
    k40 = [("%02x" % a) * 4 + ("%02x" % b) * 4 + "00" * 32 for a in (1, 2) for b in (1, 2, 3)]
    out.append(U("kv40", k40[:1], k40[1:], probes=[("03" * 4) + "01" * 4 + "00" * 32], variants=(0,), kind="kv", tiers=("thorough",)))
    # encoder-built keys (text and compound), built with the real key_encoder
    if keygen is not None:
        def enc(*specs):
            r = subprocess.run([keygen] + list(specs), capture_output=True, text=True, check=True)
            return r.stdout.split()
        texts = enc("t:a", "t:b", "t:ab", "t:abc", "t:abd", "t:b0", "t:", "t:zzzz", "t:abcdefgh", "t:abcdefgi")
        out.append(U("kv-text", texts[:1], texts[1:], probes=enc("t:aa", "t:c"), variants=(1,), kind="kv"))
        comp = enc("u16:1+t:x+u8:0", "u16:1+t:x+u8:255", "u16:1+t:y+u8:0", "u16:2+t:x+u8:0", "u16:1+t:xy+u8:0",
                   "u16:1+t:+u8:7", "u16:258+t:x+u8:0", "u16:1+t:x+u8:1", "u16:0+t:zz+u8:9")
        out.append(U("kv-compound", comp[:1], comp[1:], probes=enc("u16:1+t:w+u8:0", "u16:3+t:+u8:0"), variants=(0,), kind="kv"))
        mixed = enc("i32:-5+f:1.5", "i32:-5+f:-1.5", "i32:7+f:0", "i32:-2147483648+f:1e30", "i32:7+f:-0.0", "i32:0+f:2.5", "i32:-5+f:1.25")
        out.append(U("kv-int-float", mixed[:1], mixed[1:], probes=enc("i32:1+f:1"), variants=(0,), kind="kv"))
        # deep shared prefixes: ordinary compound keys that share >= 8 bytes below a node (known finding, C01)
        deep = enc("u32:1+t:x+u16:0", "u32:1+t:x+u16:65535", "u32:1+t:x+u16:256", "u32:2+t:x+u16:0")
        out.append(U("kv-deep-compound", [], deep, probes=[], variants=(), kind="kv", deep=True))
    # raw deep shared runs of 8 and 9 bytes
    out.append(U("kv-deep-raw", [], ["0102030405060708090a", "0102030405060708090b", "010203040506070809ff", "0102030405060708ff00",
                                     "01020304050607ff0000"],
                 probes=[], variants=(), kind="kv", deep=True))
    return out


def for_tier(us, tier):
    return [u for u in us if tier in u["tiers"]]
