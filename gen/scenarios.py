"""Deterministic scenario tables for engine A (OLC index).

A scenario = initial key set + one short program per thread.  Keys are uint64,
written as 16 hex digits; byte b0 is the most significant one (the first byte
the tree looks at).  See DESIGN.md section 5.0 for the geometry G1-G4.
"""
import itertools


def key(*bs):
    """key(b0, ..., b7) -> hex string; missing trailing bytes are 0."""
    bs = list(bs) + [0] * (8 - len(bs))
    return "".join("%02x" % b for b in bs)


def g1(xs):
    """one node at the root: 00 00 00 00 00 00 00 xx"""
    return [key(0, 0, 0, 0, 0, 0, 0, x) for x in xs]


# ---------------------------------------------------------------------------
# base trees: name -> (init keys, universe of keys operations may use, weight)
# weight: rough number of scheduling points of the heaviest structural op,
# used to pick the preemption bound.

def bases():
    B = {}
    A = key(2)                           # leaf under the root
    N1 = [key(1, 0, 0, 0, 0, 0, 0, x) for x in (1, 2, 3)]
    # T1: root I4 {01 -> I4(6-byte prefix){01,02}, 02 -> leaf}.  remove(A)
    # collapses the root into the inner node (prefix prepend 0+1+6).
    B["two_level"] = dict(
        init=[A, N1[0], N1[1]],
        univ=[A, N1[0], N1[1], N1[2], key(3), key(1, 0, 0, 1, 0, 0, 0, 1)],
        weight=30)
    # T1b: three children at the root, so that removing A keeps the root
    B["two_level_wide"] = dict(
        init=[A, key(3), N1[0], N1[1]],
        univ=[A, key(3), N1[0], N1[1], N1[2]],
        weight=30)
    # T8: empty tree and single leaf
    B["empty"] = dict(init=[], univ=[key(1), key(1, 0, 0, 0, 0, 0, 0, 1), key(2)], weight=12)
    B["single_leaf"] = dict(
        init=[key(1)],
        univ=[key(1), key(1, 0, 0, 0, 0, 0, 0, 1), key(2)], weight=12)
    # T9: two-leaf I4 at the root with a 3-byte prefix: remove -> collapse to leaf
    P = [key(5, 5, 5, 1), key(5, 5, 5, 2)]
    B["two_leaves"] = dict(
        init=P,
        univ=P + [key(5, 5, 5, 3), key(5, 6), key(5, 5, 5, 1, 0, 0, 0, 1)],
        weight=30)
    # T2: full I4 at the root (7-byte prefix): insert grows to I16; a key
    # diverging inside the prefix splits the prefix
    S4 = g1([1, 2, 3, 4])
    B["i4_full"] = dict(
        init=S4,
        univ=[S4[0], S4[3], g1([5])[0], key(0, 0, 0, 9)],
        weight=40)
    # T3: minimal I16: remove shrinks to I4
    S5 = g1([1, 2, 3, 4, 5])
    B["i16_min"] = dict(
        init=S5,
        univ=[S5[0], S5[4], g1([6])[0], key(0, 0, 0, 9)],
        weight=50)
    # I4 with three children: add to non-full, remove from non-minimal
    S3 = g1([1, 3, 5])
    B["i4_three"] = dict(
        init=S3,
        univ=[S3[0], S3[1], S3[2], g1([2])[0], g1([7])[0]],
        weight=25)
    # keys with runs of equal bytes: a walk that interprets a node one byte too early or too late (its prefix was cut or
    # prepended in place since the pointer to it was loaded) still finds matching prefix bytes and an existing child
    Z = [key(0, 0, 0, 0, 0, 0, x, 0) for x in (0, 1, 2)]
    B["zero_run"] = dict(
        init=Z,
        univ=[Z[1], Z[0], key(1), key(0, 0, 0, 0, 0, 1)],
        weight=30)
    B["zero_run_two_level"] = dict(
        init=[key(1), Z[0], Z[1]],
        univ=[key(1), Z[0], Z[1], Z[2]],
        weight=30)
    # ... and the opposite: prefixes of pairwise distinct bytes, so that a walk at the wrong offset after an in-place prefix
    # cut or prepend sees a prefix MISmatch (the "prefix does not match" exits) rather than a missing child
    D = [key(1, 2, 3, 1), key(1, 2, 3, 2)]
    B["distinct_prefix"] = dict(
        init=D,
        univ=D + [key(1, 2, 3, 3), key(1, 9), key(2)],
        weight=30)
    B["distinct_prefix_below"] = dict(
        init=[key(7)] + D,
        univ=[D[0], D[1], key(7), key(1, 2, 9), key(1, 4)],
        weight=30)
    # mirror images: the inner node is the RIGHT-most child, so that reverse traversals (last(), prior(), reverse seeks)
    # descend through it the way forward ones descend through the left-most one in the bases above
    NR = [key(2, 0, 0, 0, 0, 0, 0, x) for x in (1, 3, 5)]
    B["two_level_right"] = dict(
        init=[key(1), NR[0], NR[1]],
        univ=[key(1), NR[0], NR[1], NR[2], key(2, 0, 0, 0, 0, 0, 0, 2), key(3)],
        weight=30)
    B["three_level_right"] = dict(
        init=[key(1), key(2, 1, 1), key(2, 2, 1), key(2, 2, 3)],
        univ=[key(1), key(2, 1, 1), key(2, 2, 1), key(2, 2, 3), key(2, 2, 2), key(2, 3)],
        weight=35)
    # three levels: root I4 -> I4 -> I4 of leaves; collapse of the middle
    B["three_level"] = dict(
        init=[key(1, 1, 1), key(1, 1, 2), key(1, 2, 1), key(2)],
        univ=[key(1, 1, 1), key(1, 1, 2), key(1, 2, 1), key(2), key(1, 2, 2), key(1, 3)],
        weight=35)
    # inner node below a wider root: grow/shrink below an I16 parent
    wide = [key(x) for x in (3, 4, 5, 6)]
    B["below_i16"] = dict(
        init=wide + N1[:2],
        univ=[N1[0], N1[1], N1[2], wide[0], key(7)],
        weight=45)
    # growth and shrink of a node BELOW the root, whose parent is a real inode that a sibling writer can modify (at the root
    # the "parent" is only the root pointer lock)
    C5 = [key(1, 0, 0, 0, 0, 0, 0, x) for x in (1, 2, 3, 4, 5)]
    B["i16_min_below"] = dict(
        init=C5 + [key(2)],
        univ=[C5[0], C5[4], key(2), key(3), key(0)],
        weight=50)
    B["i4_full_below"] = dict(
        init=C5[:4] + [key(2)],
        univ=[C5[0], C5[4], key(2), key(3), key(0)],
        weight=45)
    # heavy ones: 16 -> 17, 17 -> 16, 48 -> 49, 49 -> 48
    S16 = g1(range(1, 17))
    B["i16_full"] = dict(init=S16, univ=[S16[0], S16[15], g1([17])[0], g1([18])[0]], weight=60)
    S17 = g1(range(1, 18))
    B["i48_min"] = dict(init=S17, univ=[S17[0], S17[16], g1([18])[0]], weight=70)
    S48 = g1(range(1, 49))
    B["i48_full"] = dict(init=S48, univ=[S48[0], S48[47], g1([49])[0], g1([50])[0]], weight=120)
    S49 = g1(range(1, 50))
    B["i256_min"] = dict(init=S49, univ=[S49[0], S49[48], g1([50])[0]], weight=125)
    # a completely full inode_256 (its 8-bit child count wraps to 0)
    S256 = g1(range(0, 256))
    B["i256_full"] = dict(init=S256, univ=[S256[0], S256[255], S256[128]], weight=300)
    return B


def single_ops(base):
    ops = []
    for k in base["univ"]:
        ops += ["g:" + k, "i:" + k, "r:" + k]
    return ops


def is_writer(op):
    return op[0] in "ir"


def op_key(op):
    return op.split(":")[1]


def bound_for(weight, nthreads, tier):
    if nthreads >= 3:
        return 2 if tier == "thorough" else 1
    if tier == "quick":
        return 2 if weight < 60 else 1
    return 3 if weight < 45 else 2


def c03(tier):
    """all unordered pairs of single operations with at least one writer, per
    base tree; plus two-operation programs and three-thread scenarios on the
    small bases"""
    out = []
    B = bases()
    heavy = ("i16_full", "i48_min", "i48_full", "i256_min", "i256_full")
    for name, base in B.items():
        ops = single_ops(base)
        for a, b in itertools.combinations_with_replacement(ops, 2):
            if not (is_writer(a) or is_writer(b)):
                continue
            if name in heavy:
                # keep the pairs that involve the key that triggers the
                # structural change (the absent key for growth, a present one
                # for shrinking)
                keys = {op_key(a), op_key(b)}
                trig = set(base["univ"][-2:]) | {base["univ"][0]}
                if not (keys & trig):
                    continue
                if a[0] == "g" and b[0] == "g":
                    continue
            out.append(dict(id="c03-%s-%s-%s" % (name, a.replace(":", ""), b.replace(":", "")),
                            init=base["init"], threads=[[a], [b]],
                            bound=bound_for(base["weight"], 2, tier), base=name))
    # two operations per thread on the small bases (quick: reduced)
    small = ["two_level", "two_leaves", "single_leaf"]
    for name in small:
        base = B[name]
        ops = single_ops(base)
        wr = [o for o in ops if is_writer(o)]
        progs = []
        for a in wr:
            for b in ops:
                if op_key(a) == op_key(b) and a != b:
                    progs.append([a, b])
        if tier == "quick":
            progs = progs[::3]
        for p, q in itertools.combinations(progs, 2):
            if tier == "quick" and (hash_det(str(p) + str(q)) % 4):
                continue
            out.append(dict(id="c03-%s-2x2-%s-%s" % (name, "".join(x.replace(":", "") for x in p),
                                                   "".join(x.replace(":", "") for x in q)),
                            init=base["init"], threads=[p, q],
                            bound=2 if tier == "thorough" else 1, base=name))
    # three threads: two writers and a reader on one node
    for name in ("two_level", "two_leaves", "i4_three"):
        base = B[name]
        ops = single_ops(base)
        wr = [o for o in ops if is_writer(o)]
        gets = [o for o in ops if o[0] == "g"]
        triples = []
        for a, b in itertools.combinations(wr, 2):
            for g in gets:
                triples.append((a, b, g))
        step = 1 if tier == "thorough" else 9
        for a, b, g in triples[::step]:
            out.append(dict(id="c03-%s-3t-%s-%s-%s" % (name, a.replace(":", ""), b.replace(":", ""), g.replace(":", "")),
                            init=base["init"], threads=[[a], [b], [g]],
                            bound=bound_for(base["weight"], 3, tier), base=name, shards=4 if tier == "thorough" else 1))
    return out


def c01_views(tier):
    """C01's last clause on the OLC index: 'a value view obtained earlier stays readable and unchanged ... at least until the
    caller's next quiescent state'.  One worker runs a sequential program while a second registered thread merely exists
    (blocked at a barrier), so that reclamation is really deferred: get (the view is held), then an operation that removes
    the entry or restructures the node around it, then the view is re-read at the worker's next quiescent state.  No race:
    bound 0."""
    out = []
    B = bases()
    names = ["two_level", "two_leaves", "single_leaf", "i4_full", "i16_min", "i4_three", "three_level", "i16_full", "i48_min",
             "i48_full", "i256_min", "i256_full", "i16_min_below", "i4_full_below", "zero_run", "distinct_prefix_below"]
    for name in names:
        base = B[name]
        present = [k for k in base["univ"] if k in base["init"]]
        absent = [k for k in base["univ"] if k not in base["init"]]
        for k in present:
            ops = ["r:" + k] + ["r:" + o for o in present if o != k][:2] + ["i:" + a for a in absent]
            for op in ops:
                for tail in (["b"], ["r:" + present[-1], "b"] if op != "r:" + present[-1] else ["i:" + present[-1], "b"]):
                    prog = ["g:" + k, op] + tail
                    out.append(dict(id="c01v-%s-%s" % (name, "".join(x.replace(":", "") for x in prog)),
                                    init=base["init"], threads=[prog, ["b"]], bound=0, base=name))
        out.append(dict(id="c01v-%s-scan" % name, init=base["init"], threads=[["s:f", "r:" + present[0], "b"], ["b"]], bound=0, base=name))
        out.append(dict(id="c01v-%s-scanr" % name, init=base["init"], threads=[["s:r", "r:" + present[-1], "b"], ["b"]], bound=0, base=name))
    return out


def hash_det(s):
    h = 0
    for ch in s:
        h = (h * 131 + ord(ch)) & 0xFFFFFFFF
    return h


def retires(op, base):
    """does this writer op hand nodes to deferred reclamation?"""
    return op[0] == "r" or op[0] == "i"


def c04(tier):
    """C03/C09 style scenarios re-instantiated with quiescent-state placements
    such that epochs advance (and memory is really freed) while readers are
    active; readers keep every view until their next quiescent state"""
    out = []
    B = bases()
    names = ["two_level", "two_level_wide", "two_leaves", "single_leaf", "i4_full", "i16_min", "i4_three", "three_level", "i16_full"]
    if tier == "thorough":
        names += ["below_i16", "i48_min", "i48_full", "i256_min", "i256_full"]
    for name in names:
        base = B[name]
        present = [k for k in base["univ"] if k in base["init"]]
        readers = []
        for k in present[:3]:
            readers.append(["q", "g:" + k, "q", "g:" + k])
            readers.append(["g:" + k, "g:" + k])  # never quiesces before the end
        if len(base["init"]) <= 64:
            readers.append(["q", "s:f", "q"])
            readers.append(["q", "s:r", "q", "g:" + present[0]])
        else:
            # a full scan of 256 leaves has thousands of scheduling points (bound 2 would mean millions of executions):
            # scans that halt after two entries, from either end
            readers.append(["q", "s:f:h2", "q"])
            readers.append(["q", "s:r:h2", "q", "g:" + present[0]])
        writers = []
        for k in base["univ"]:
            if k in base["init"]:
                writers.append(["r:" + k, "q", "q", "q"])
                writers.append(["q", "r:" + k, "q", "i:" + k, "q", "q"])
            else:
                writers.append(["i:" + k, "q", "q", "q"])
                writers.append(["q", "i:" + k, "q", "r:" + k, "q", "q"])
        if tier == "quick":
            writers = writers[::2] + writers[1::4]
        for r in readers:
            for w in writers:
                out.append(dict(id="c04-%s-%s--%s" % (name, "".join(x.replace(":", "") for x in r), "".join(x.replace(":", "") for x in w)),
                                init=base["init"], threads=[r, w],
                                bound=2 if (tier == "thorough" or base["weight"] <= 30) else 1, base=name))
    # every size-class transition has its own code (one init() per source/target pair): in the quick tier the heavy
    # boundaries get a reduced family - a reader holding views of the trigger key and of a bystander across the one operation
    # that grows or shrinks the node (thorough: the full product above)
    if tier == "quick":
        for name in ("i48_min", "i48_full", "i256_min", "i256_full"):
            base = B[name]
            present = [k for k in base["univ"] if k in base["init"]]
            absent = [k for k in base["univ"] if k not in base["init"]]
            trig = ["r:" + present[0]] if name.endswith("_min") else (["i:" + absent[-1]] if absent else ["r:" + present[0], "i:" + present[0]])
            for r in (["g:" + present[0], "g:" + present[1]], ["q", "g:" + present[0], "q", "g:" + present[1]], ["q", "s:r:h2", "q"]):
                out.append(dict(id="c04-%s-%s--%s" % (name, "".join(x.replace(":", "") for x in r), "".join(x.replace(":", "") for x in trig)),
                                init=base["init"], threads=[r, trig + ["q", "q", "q"]], bound=1, base=name))
    # a reader holding a view, a remover that leaves, and a third thread that merely leaves (never quiesces): the orphan
    # hand-over of the leavers decides when the removed leaf is freed
    for name in ("two_level", "two_leaves", "i4_three"):
        base = B[name]
        present = [k for k in base["univ"] if k in base["init"]]
        for k in present[:2]:
            for reader in (["q", "g:" + k, "g:" + present[-1]], ["g:" + k, "g:" + k], ["q", "g:" + k, "q", "g:" + present[-1]]):
                for writer in (["r:" + k], ["r:" + k, "q"], ["q", "r:" + k]):
                    for idle in ([], ["q"], ["pu", "q"]):
                        out.append(dict(id="c04-%s-leave-%s--%s--%s" % (name, "".join(x.replace(":", "") for x in reader),
                                                                        "".join(x.replace(":", "") for x in writer), "".join(idle) or "_"),
                                        init=base["init"], threads=[reader, writer, idle], bound=1 if tier == "quick" else 2, base=name,
                                        shards=1 if tier == "quick" else 4))
    # a reader holding a view, a remover whose quiescent state changes the epoch, and a thread that joins (resume) while that
    # change is in progress; barriers (b) bring the three to that state without spending scheduling deviations
    for name in ("two_level", "two_leaves"):
        base = B[name]
        present = [k for k in base["univ"] if k in base["init"]]
        for k in present[:2]:
            for reader in (["q", "g:" + k, "b", "b"], ["g:" + k, "b", "b"], ["q", "s:f", "b", "b"]):
                for writer in (["b", "r:" + k, "q", "q", "b"], ["b", "r:" + k, "q", "b"], ["q", "b", "r:" + k, "q", "q", "b"]):
                    for joiner in (["p", "b", "u", "q"], ["p", "b", "u", "q", "q"], ["p", "b", "u"]):
                        out.append(dict(id="c04-%s-join-%s--%s--%s" % (name, "".join(x.replace(":", "") for x in reader),
                                                                       "".join(x.replace(":", "") for x in writer), "".join(joiner)),
                                        init=base["init"], threads=[reader, writer, joiner], bound=1 if tier == "quick" else 2,
                                        base=name, shards=1 if tier == "quick" else 4))
    # two writers on one node (no reader): a restart path that retires a node twice, or retires one that stays linked, shows
    # when the retired blocks are freed in the drain and in the final sweep
    ww_bases = ("two_level", "two_leaves", "three_level", "i4_three", "zero_run_two_level", "i16_min_below", "i4_full_below")
    if tier == "thorough":
        ww_bases += ("two_level_wide", "i4_full", "i16_min", "below_i16", "zero_run")
    for s in c03(tier):
        if s.get("base") in ww_bases and len(s["threads"]) == 2 and all(len(t) == 1 and t[0][0] in "ir" for t in s["threads"]):
            out.append(dict(s, id=s["id"].replace("c03-", "c04-ww-", 1)))
    # two writers retiring concurrently + a reader (three threads)
    for name in ("two_level", "two_leaves"):
        base = B[name]
        present = [k for k in base["univ"] if k in base["init"]]
        for a, b in itertools.combinations(present, 2):
            out.append(dict(id="c04-%s-3t-%s-%s" % (name, a, b),
                            init=base["init"],
                            threads=[["r:" + a, "q", "q"], ["r:" + b, "q", "q"], ["q", "g:" + present[-1], "q", "g:" + present[-1], "q"]],
                            bound=1 if tier == "quick" else 2, base=name, shards=4 if tier == "thorough" else 1))
    return out


def c09(tier):
    """one scanner against one writer restructuring nodes on the scanner's
    stack"""
    out = []
    B = bases()
    names = ["two_level", "two_level_wide", "two_leaves", "three_level", "i4_three", "i4_full", "i16_min", "two_level_right",
             "three_level_right", "i16_min_below"]
    if tier == "thorough":
        names += ["below_i16", "single_leaf", "empty", "zero_run", "distinct_prefix", "distinct_prefix_below"]
    for name in names:
        base = B[name]
        init = sorted(base["init"])
        univ = sorted(base["univ"])
        scans = ["s:f", "s:r"]
        bnds = [univ[0], univ[len(univ) // 2], univ[-1]]
        # bounds that are not stored keys: just above each universe key (the seek then leaves the tree between two children)
        gaps = []
        for a, b in zip(univ, univ[1:] + ["ffffffffffffffff"]):
            g = "%016x" % (int(a, 16) + 1)
            if g < b and g not in univ:
                gaps.append(g)
        if tier == "quick":
            gaps = gaps[::2]
        for b in bnds:
            scans += ["sf:%s:f" % b, "sf:%s:r" % b]
        gap_scans = []
        for g in gaps:
            gap_scans += ["sf:%s:f" % g, "sf:%s:r" % g]
        scans += ["sr:%s:%s" % (univ[0], univ[-1]), "sr:%s:%s" % (univ[-1], univ[0])]
        scans += ["s:f:h1", "s:r:h2", "sf:%s:f:h1" % univ[0]]
        writers = []
        for k in univ:
            writers.append(["r:" + k] if k in init else ["i:" + k])
        # two-step writers: remove then re-insert, insert then remove
        for k in univ[:3]:
            writers.append(["r:" + k, "i:" + k] if k in init else ["i:" + k, "r:" + k])
        if tier == "quick":
            scans = scans[:2] + scans[2:8:2] + scans[8:]
        scans += gap_scans
        for s in scans:
            for w in writers:
                out.append(dict(id="c09-%s-%s--%s" % (name, s.replace(":", ""), "".join(x.replace(":", "") for x in w)),
                                init=base["init"], threads=[[s], w],
                                bound=2 if (tier == "thorough" or base["weight"] <= 35) else 1, base=name))
    if tier == "thorough":
        # 1 scanner + 2 writers, 2 scanners + 1 writer
        for name in ("two_level", "two_leaves", "three_level"):
            base = B[name]
            init = sorted(base["init"])
            univ = sorted(base["univ"])
            wr = [("r:" + k) if k in init else ("i:" + k) for k in univ]
            for a, b in itertools.combinations(wr, 2):
                for s in ("s:f", "s:r", "sf:%s:f" % univ[1]):
                    out.append(dict(id="c09-%s-3t-%s-%s-%s" % (name, s.replace(":", ""), a.replace(":", ""), b.replace(":", "")),
                                    init=base["init"], threads=[[s], [a], [b]], bound=2, base=name, shards=4))
            for a in wr:
                out.append(dict(id="c09-%s-2s-%s" % (name, a.replace(":", "")),
                                init=base["init"], threads=[["s:f"], ["s:r"], [a]], bound=2, base=name, shards=4))
    return out


def c14(tier):
    """every execution of C03 and C09 is also a C14 execution (the oracles are
    always on); the C14 check itself runs the three-thread wait-cycle family
    and the scenarios with the most restarts"""
    out = []
    B = bases()
    for name in ("two_level", "two_leaves", "i4_three", "three_level", "single_leaf", "empty", "i16_min_below", "i4_full_below",
                 "zero_run_two_level", "distinct_prefix_below"):
        base = B[name]
        ops = single_ops(base)
        wr = [o for o in ops if is_writer(o)]
        # every pair of single writer operations
        for a, b in itertools.combinations_with_replacement(wr, 2):
            out.append(dict(id="c14-%s-w1-%s-%s" % (name, a.replace(":", ""), b.replace(":", "")),
                            init=base["init"], threads=[[a], [b]], bound=2, base=name))
        # three writers on one small tree
        triples = list(itertools.combinations(wr, 3))
        step = 3 if tier == "thorough" else 29
        for a, b, c in triples[::step]:
            out.append(dict(id="c14-%s-3w-%s-%s-%s" % (name, a.replace(":", ""), b.replace(":", ""), c.replace(":", "")),
                            init=base["init"], threads=[[a], [b], [c]],
                            bound=2 if tier == "thorough" else 1, base=name, shards=4 if tier == "thorough" else 1))
        # writer/writer pairs with two operations each
        pairs = list(itertools.combinations(wr, 2))
        for a, b in pairs[::(2 if tier == "thorough" else 5)]:
            out.append(dict(id="c14-%s-ww-%s-%s" % (name, a.replace(":", ""), b.replace(":", "")),
                            init=base["init"], threads=[[a, b], [b, a]], bound=2, base=name))
        # writer vs scanner vs writer
        for a, b in pairs[::(7 if tier == "thorough" else 31)]:
            out.append(dict(id="c14-%s-wsw-%s-%s" % (name, a.replace(":", ""), b.replace(":", "")),
                            init=base["init"], threads=[[a], ["s:f"], [b]],
                            bound=2 if tier == "thorough" else 1, base=name, shards=4 if tier == "thorough" else 1))
    return out


def _valid_qsbr(p):
    reg = not p.startswith("U")
    for i, c in enumerate(p):
        if c == "B":
            continue
        if c == "X":
            return i + 1 == len(p)
        if c == "U":
            if reg:
                return False
            reg = True
        elif c == "P":
            if not reg:
                return False
            reg = False
        elif c in "QRA":
            if not reg:
                return False
        elif c != "W":
            return False
    return True


def qsbr_programs(maxlen, alphabet="QRPUX"):
    out = [""]
    for n in range(1, maxlen + 1):
        for t in itertools.product(alphabet, repeat=n):
            p = "".join(t)
            if _valid_qsbr(p):
                out.append(p)
    return out


def qsbr(prop, tier):
    """C05 and C06 share the executions (both oracles are always on); the two
    checks split the program families between them so that each family is run
    once per tier: C05 = the 4-thread role family + all 2-thread sets, C06 = all
    3-thread sets + the exit/pause-during-epoch-change family"""
    out = []
    roles = dict(
        holder=["QWQ"],
        retirer=["RX", "RPUQ", "RQX"],
        leaver=["X", "PU", "QX"],
        joiner=["UQX", "URQ"])
    if prop == "C05":
        for r in roles["retirer"]:
            for l in roles["leaver"]:
                for j in roles["joiner"]:
                    out.append(dict(id="qsbr-role-QWQ-%s-%s-%s" % (r, l, j), runner="qsbr",
                                    threads=["QWQ", r, l, j], bound=3 if tier == "quick" else 4, delay_bounded=True,
                                    shards=1 if tier == "quick" else 8))
        # two retirers, a holder and a joiner; a holder that allocates
        for extra in (["QWQ", "RX", "RQX", "UQX"], ["QWQ", "RPUQ", "RX", "URQ"], ["AQWQ", "RX", "X", "UQX"],
                      ["QWQ", "ARX", "QX", "UQX"]):
            out.append(dict(id="qsbr-role-" + "-".join(extra), runner="qsbr", threads=extra,
                            bound=3 if tier == "quick" else 4, delay_bounded=True, shards=1 if tier == "quick" else 8))
        progs = qsbr_programs(2 if tier == "quick" else 3)
        for a, b in itertools.combinations_with_replacement(progs, 2):
            if "R" not in a + b:
                continue
            out.append(dict(id="qsbr-2t-%s-%s" % (a or "_", b or "_"), runner="qsbr", threads=[a, b],
                            bound=3 if tier == "quick" else 4))
        # joiners: one thread is alone in QSBR and in the middle of its quiescent states while two others start, one of
        # them retiring, one of them taking a reference and holding it
        for sole in ("QQ", "QQQ"):
            for n in ("URQQ", "URQ", "UQRQ", "URX") + (("URP", "URQX") if tier == "thorough" else ()):
                for z in ("UQW", "UQQ", "UW"):
                    import os as _os
                    jb = int(_os.environ.get("VERIF_JOIN_BOUND", "2" if tier == "quick" else "3"))
                    jd = _os.environ.get("VERIF_JOIN_DELAY", "0") == "1"
                    out.append(dict(id="qsbr-join-%s-%s-%s" % (sole, n, z), runner="qsbr", threads=[sole, n, z],
                                    bound=jb, delay_bounded=jd, shards=1 if tier == "quick" else 4))
        # rounds: barriers (B) take a holder, a retirer and a third thread (quiescing / pausing and resuming / starting
        # late) through complete rounds at no cost in deviations, so that the bound is spent inside the later epoch changes
        for h in ("QBBW", "BQBW", "QBQBW"):
            for r in ("RQBQBX", "QBRQBX", "RQBBQQ", "QBRBQQ"):
                for c in ("QBBQQ", "PBUBQQ", "QBPBUQ", "UQBBQ"):
                    out.append(dict(id="qsbr-rounds5-%s-%s-%s" % (h, r, c), runner="qsbr", threads=[h, r, c],
                                    bound=2 if tier == "quick" else 3, shards=1 if tier == "quick" else 4))
    else:
        progs = qsbr_programs(2)
        sets = [c for c in itertools.combinations_with_replacement(progs, 3) if "R" in "".join(c)]
        if tier == "quick":
            sets = [c for c in sets if hash_det("".join(c)) % 8 == 0]
        for a, b, c in sets:
            out.append(dict(id="qsbr-3t-%s-%s-%s" % (a or "_", b or "_", c or "_"), runner="qsbr", threads=[a, b, c],
                            bound=2 if tier == "quick" else 3))
        # two threads, one of them retiring twice or leaving with a request of an earlier interval while the other changes
        # the epoch (orphan hand-over racing with the epoch changer's list manipulation; several requests per interval)
        for a in ("QRR", "QRRQ", "RQRR", "QRQR", "RRQ", "RQX", "RQP", "RQQX", "QRQX"):
            for b in ("Q", "QQ", "QQQ", "QX", "X", "PU", "QQQQ"):
                out.append(dict(id="qsbr-r2-%s-%s" % (a, b), runner="qsbr", threads=[a, b], bound=3 if tier == "quick" else 4))
        # rounds: barriers (B) bring all threads through one complete round (epoch change) and the first two through a
        # further quiescent state at no cost in deviations; then those two leave or pause with requests of an earlier
        # interval while the third, last in its epoch, performs the next epoch change
        for a in ("RQBQBX", "RQBQBP", "RQBRQBX"):
            for b in ("RQBQBX", "RQBQBP"):
                for c in ("QBBQ", "QBBQQ", "RQBBQ"):
                    out.append(dict(id="qsbr-rounds-%s-%s-%s" % (a, b, c), runner="qsbr", threads=[a, b, c],
                                    bound=2 if tier == "quick" else 3, shards=1 if tier == "quick" else 4))
        # two threads leave with requests of an earlier interval during one epoch change of a third (orphan list with two
        # racing nodes)
        for a in ("RQX", "RQP"):
            for b in ("RQX", "RQP", "RQQX"):
                for c in ("QQ", "QQQ", "QQQQ"):
                    out.append(dict(id="qsbr-2leave-%s-%s-%s" % (a, b, c), runner="qsbr", threads=[a, b, c],
                                    bound=2 if tier == "quick" else 3))
        # threads leaving with pending requests while another changes the epoch
        for a in ("RX", "RP", "RQX", "RRX", "RQP"):
            for b in ("QQ", "QX", "X", "PU", "QQQ"):
                for c in ("UQ", "UX", "Q", "UQQ"):
                    out.append(dict(id="qsbr-leave-%s-%s-%s" % (a, b, c), runner="qsbr", threads=[a, b, c],
                                    bound=3 if tier == "quick" else 4, delay_bounded=True))
    return out


def lock(tier):
    """C07: all unordered pairs of lock programs in closure mode (unbounded), all
    pairs of two-program sequences, all multisets of three programs at bound 2
    (quick) / in closure mode (thorough)"""
    out = []
    P = ["Rd", "Rd2", "Wr", "WrO", "Up", "Re"]
    for a, b in itertools.combinations_with_replacement(P, 2):
        out.append(dict(id="lock-2-%s-%s" % (a, b), runner="lock", threads=[[a], [b]], bound=1000, closure=True))
    seqs = [[a, b] for a in P for b in P if not (a == "WrO")]  # after making the lock obsolete nothing more can be opened
    if tier == "quick":
        seqs = [q for q in seqs if hash_det("".join(q)) % 3 == 0]
    for a, b in itertools.combinations_with_replacement(seqs, 2):
        if tier == "quick" and hash_det("".join(a + b)) % 4:
            continue
        out.append(dict(id="lock-2x2-%s-%s" % ("".join(a), "".join(b)), runner="lock", threads=[a, b], bound=1000, closure=True))
    for a, b, c in itertools.combinations_with_replacement(P, 3):
        if tier == "quick":
            out.append(dict(id="lock-3-%s-%s-%s" % (a, b, c), runner="lock", threads=[[a], [b], [c]], bound=3))
        else:
            out.append(dict(id="lock-3-%s-%s-%s" % (a, b, c), runner="lock", threads=[[a], [b], [c]], bound=1000, closure=True))
            out.append(dict(id="lock-3b-%s-%s-%s" % (a, b, c), runner="lock", threads=[[a], [b], [c]], bound=3))
    return out


def mutex(tier):
    """C13: programs over {get, get-and-hold, insert, remove, empty, clear, scan,
    scan_from, scan_range}
    on keys {1, 2}; all pairs of two-operation programs (quick), all pairs of
    three-operation programs and all triples of one- and two-operation
    programs (thorough).  All interleavings, no bound."""
    out = []
    ops = ["g:1", "G:1", "i:1", "r:1", "g:2", "G:2", "i:2", "r:2", "e", "c", "s", "f:1", "f:2", "R:1"]
    init = ["1", "2"]  # key 2 carries a zero-length value
    progs2 = [[a, b] for a in ops for b in ops]
    if tier == "quick":
        progs2 = [p for p in progs2 if hash_det("".join(p)) % 4 == 0]
    for p, q in itertools.combinations_with_replacement(progs2, 2):
        if tier == "quick" and hash_det("".join(p + q)) % 3:
            continue
        out.append(dict(id="mutex-2x2-%s-%s" % ("".join(p).replace(":", ""), "".join(q).replace(":", "")), runner="mutex",
                        init=init, threads=[p, q], bound=1000))
    for a, b, c in itertools.combinations_with_replacement(ops, 3):
        out.append(dict(id="mutex-3-%s-%s-%s" % (a.replace(":", ""), b.replace(":", ""), c.replace(":", "")), runner="mutex",
                        init=init, threads=[[a], [b], [c]], bound=1000))
    if tier == "thorough":
        # the three-operation and three-thread families stay on the first 11 operations (the scan_from / scan_range
        # variants take the same two scheduling points as scan; they are covered by the 2x2 pairs and the triples above)
        ops11 = ops[:11]
        progs3 = [[a, b, c] for a in ops11 for b in ops11 for c in ops11 if hash_det(a + b + c) % 12 == 0]
        for p, q in itertools.combinations(progs3, 2):
            if hash_det("".join(p + q)) % 4:
                continue
            out.append(dict(id="mutex-3x3-%s-%s" % ("".join(p).replace(":", ""), "".join(q).replace(":", "")), runner="mutex",
                            init=init, threads=[p, q], bound=1000))
        for p, q in itertools.combinations([x for x in progs2 if x[0] in ops11 and x[1] in ops11][::7], 2):
            for c in ("G:1", "c", "s"):
                out.append(dict(id="mutex-2x2x1-%s-%s-%s" % ("".join(p).replace(":", ""), "".join(q).replace(":", ""), c.replace(":", "")),
                                runner="mutex", init=init, threads=[p, q, [c]], bound=1000))
    return out


TABLES = {"C03": c03, "C04": c04, "C09": c09, "C14": c14}

if __name__ == "__main__":
    import sys
    for prop, fn in TABLES.items():
        for tier in ("quick", "thorough"):
            sc = fn(tier)
            print(prop, tier, len(sc), "scenarios")
    if len(sys.argv) > 1:
        for s in TABLES[sys.argv[1]](sys.argv[2]):
            print(s["id"], s["bound"])
