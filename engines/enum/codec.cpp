// Engine C ("enum"): exhaustive input enumeration for the unodb key codec.
// Decides properties C11 (order preservation), C12 (decode inverts encode) and
// C15 (prefix-freedom contract) over complete finite domains.
//
// Build:  g++ -std=c++20 -O2 -mavx2 -I/repo -pthread codec.cpp -o codec
// Run:    codec --property C11|C12|C15 --tier quick|thorough --out r.json
//               [--threads N] [--only <part>] [--replay-arg <s>]
//
// No randomness, no wall clock, no address-dependent decisions or counts.

// Should be the first include (repo convention)
#include "global.hpp"

#include "art_common.hpp"
#include "art_internal.hpp"

#include <algorithm>
#include <array>
#include <cinttypes>
#include <csetjmp>
#include <csignal>
#include <cstddef>
#include <cstdint>
#include <cstdio>
#include <cstdlib>
#include <cstring>
#include <functional>
#include <limits>
#include <span>
#include <string>
#include <string_view>
#include <thread>
#include <type_traits>
#include <vector>

#include <sys/mman.h>
#include <unistd.h>

namespace {

// ---------------------------------------------------------------------------
// Basics
// ---------------------------------------------------------------------------

[[noreturn]] void die(const std::string& m) {
  std::fprintf(stderr, "codec runner: infrastructure error: %s\n", m.c_str());
  std::fflush(stderr);
  std::_Exit(2);
}

// The maximum text length is a documented constant of the encoder; the
// reference normalisation is defined relative to it.
constexpr std::size_t MAXLEN = unodb::key_encoder::maxlen;
// "plus the three-byte terminator" (statement of C15): pad byte + 2-byte run.
constexpr std::size_t TEXT_TERMINATOR = 3;

enum Kind : int {
  K_I8, K_U8, K_I16, K_U16, K_I32, K_U32, K_I64, K_U64, K_F32, K_F64, K_TEXT,
  K_COUNT
};
const char* const kind_tag[K_COUNT] = {"i8",  "u8",  "i16", "u16", "i32", "u32",
                                       "i64", "u64", "f32", "f64", "t"};
const char* const kind_name[K_COUNT] = {"int8",  "uint8",  "int16", "uint16",
                                        "int32", "uint32", "int64", "uint64",
                                        "float", "double", "text"};
const std::size_t kind_size[K_COUNT] = {1, 1, 2, 2, 4, 4, 8, 8, 4, 8, 0};

struct Val {
  Kind k{K_U8};
  std::uint64_t bits{0};  // numeric: raw bit pattern, zero-extended
  std::string text;       // text: the input bytes as given
  std::string norm;       // text: reference normalisation of `text`
};
using Tuple = std::vector<Val>;

// Reference normalisation of text, written from the property statement: cut to
// the maximum length, then remove trailing zero padding.
std::string normalise_text(const std::string& t) {
  std::size_t n = t.size() < MAXLEN ? t.size() : MAXLEN;
  while (n > 0 && t[n - 1] == '\0') --n;
  return t.substr(0, n);
}

// A zero byte followed somewhere later by a non-zero byte.
bool has_interior_zero(const std::string& t) {
  bool seen_zero = false;
  for (const char c : t) {
    if (c == '\0') seen_zero = true;
    else if (seen_zero) return true;
  }
  return false;
}

Val make_num(Kind k, std::uint64_t bits) {
  Val v;
  v.k = k;
  const std::size_t sz = kind_size[k];
  v.bits = (sz == 8) ? bits : (bits & ((std::uint64_t{1} << (8 * sz)) - 1));
  return v;
}

Val make_text(std::string s) {
  Val v;
  v.k = K_TEXT;
  v.text = std::move(s);
  v.norm = normalise_text(v.text);
  return v;
}

template <class T> struct Traits;
template <> struct Traits<std::int8_t>   { static constexpr Kind kind = K_I8;  using U = std::uint8_t;  };
template <> struct Traits<std::uint8_t>  { static constexpr Kind kind = K_U8;  using U = std::uint8_t;  };
template <> struct Traits<std::int16_t>  { static constexpr Kind kind = K_I16; using U = std::uint16_t; };
template <> struct Traits<std::uint16_t> { static constexpr Kind kind = K_U16; using U = std::uint16_t; };
template <> struct Traits<std::int32_t>  { static constexpr Kind kind = K_I32; using U = std::uint32_t; };
template <> struct Traits<std::uint32_t> { static constexpr Kind kind = K_U32; using U = std::uint32_t; };
template <> struct Traits<std::int64_t>  { static constexpr Kind kind = K_I64; using U = std::uint64_t; };
template <> struct Traits<std::uint64_t> { static constexpr Kind kind = K_U64; using U = std::uint64_t; };
template <> struct Traits<float>         { static constexpr Kind kind = K_F32; using U = std::uint32_t; };
template <> struct Traits<double>        { static constexpr Kind kind = K_F64; using U = std::uint64_t; };

template <class T>
inline T from_bits(typename Traits<T>::U b) noexcept {
  T v;
  std::memcpy(&v, &b, sizeof v);
  return v;
}
template <class T>
inline typename Traits<T>::U to_bits(T v) noexcept {
  typename Traits<T>::U b;
  std::memcpy(&b, &v, sizeof b);
  return b;
}

// ---------------------------------------------------------------------------
// Reference orders (independent of the code under test)
// ---------------------------------------------------------------------------

// Integers: the language's integer compare. Floating point: hardware compare
// for ordered values, -0 below +0, every NaN above everything, NaNs equal.
template <class T>
inline int ref_cmp_num(T a, T b) noexcept {
  if constexpr (std::is_floating_point_v<T>) {
    const bool an = (a != a);
    const bool bn = (b != b);
    if (an || bn) return (an && bn) ? 0 : (an ? 1 : -1);
    if (a < b) return -1;
    if (a > b) return 1;
    const bool as = std::signbit(a);
    const bool bs = std::signbit(b);
    if (as == bs) return 0;
    return as ? -1 : 1;
  } else {
    return (a < b) ? -1 : ((a > b) ? 1 : 0);
  }
}

// Independently written bytewise lexicographic compare, shorter is smaller on
// an equal prefix.
inline int indep_compare(const unsigned char* a, std::size_t al,
                         const unsigned char* b, std::size_t bl) noexcept {
  std::size_t i = 0;
  while (i < al && i < bl) {
    if (a[i] != b[i]) return (a[i] < b[i]) ? -1 : 1;
    ++i;
  }
  if (al == bl) return 0;
  return (al < bl) ? -1 : 1;
}
inline int sgn(int x) noexcept { return (x > 0) - (x < 0); }

// The comparison the index uses.
inline int lib_compare(const unsigned char* a, std::size_t al,
                       const unsigned char* b, std::size_t bl) noexcept {
  return sgn(unodb::detail::compare(a, al, b, bl));
}
inline const unsigned char* uc(const std::string& s) {
  return reinterpret_cast<const unsigned char*>(s.data());
}

int ref_cmp_val(const Val& a, const Val& b) {
  if (a.k != b.k) die("ref_cmp_val: kind mismatch");
  switch (a.k) {
    case K_I8:  return ref_cmp_num(from_bits<std::int8_t>(static_cast<std::uint8_t>(a.bits)), from_bits<std::int8_t>(static_cast<std::uint8_t>(b.bits)));
    case K_U8:  return ref_cmp_num(static_cast<std::uint8_t>(a.bits), static_cast<std::uint8_t>(b.bits));
    case K_I16: return ref_cmp_num(from_bits<std::int16_t>(static_cast<std::uint16_t>(a.bits)), from_bits<std::int16_t>(static_cast<std::uint16_t>(b.bits)));
    case K_U16: return ref_cmp_num(static_cast<std::uint16_t>(a.bits), static_cast<std::uint16_t>(b.bits));
    case K_I32: return ref_cmp_num(from_bits<std::int32_t>(static_cast<std::uint32_t>(a.bits)), from_bits<std::int32_t>(static_cast<std::uint32_t>(b.bits)));
    case K_U32: return ref_cmp_num(static_cast<std::uint32_t>(a.bits), static_cast<std::uint32_t>(b.bits));
    case K_I64: return ref_cmp_num(from_bits<std::int64_t>(a.bits), from_bits<std::int64_t>(b.bits));
    case K_U64: return ref_cmp_num(a.bits, b.bits);
    case K_F32: return ref_cmp_num(from_bits<float>(static_cast<std::uint32_t>(a.bits)), from_bits<float>(static_cast<std::uint32_t>(b.bits)));
    case K_F64: return ref_cmp_num(from_bits<double>(a.bits), from_bits<double>(b.bits));
    case K_TEXT:
      return indep_compare(uc(a.norm), a.norm.size(), uc(b.norm), b.norm.size());
    default: break;
  }
  die("ref_cmp_val: bad kind");
}

int ref_cmp_tuple(const Tuple& a, const Tuple& b) {
  if (a.size() != b.size()) die("ref_cmp_tuple: schema mismatch");
  for (std::size_t i = 0; i < a.size(); ++i) {
    const int r = ref_cmp_val(a[i], b[i]);
    if (r != 0) return r;
  }
  return 0;
}

// Equality after the documented normalisation (C15), written separately from
// the order above: NaN recognised from the bit pattern, -0 and +0 distinct.
bool is_nan_bits(Kind k, std::uint64_t bits) {
  if (k == K_F32) return ((bits >> 23) & 0xFFU) == 0xFFU && (bits & 0x7FFFFFU) != 0;
  if (k == K_F64) return ((bits >> 52) & 0x7FFU) == 0x7FFU && (bits & 0xFFFFFFFFFFFFFULL) != 0;
  return false;
}
bool norm_equal_val(const Val& a, const Val& b) {
  if (a.k != b.k) die("norm_equal_val: kind mismatch");
  if (a.k == K_TEXT) return a.norm == b.norm;
  if (is_nan_bits(a.k, a.bits) && is_nan_bits(b.k, b.bits)) return true;
  return a.bits == b.bits;
}
bool norm_equal_tuple(const Tuple& a, const Tuple& b) {
  if (a.size() != b.size()) die("norm_equal_tuple: schema mismatch");
  for (std::size_t i = 0; i < a.size(); ++i)
    if (!norm_equal_val(a[i], b[i])) return false;
  return true;
}

// ---------------------------------------------------------------------------
// Strings: hex, RLE text, value / tuple (de)serialisation, JSON
// ---------------------------------------------------------------------------

std::string hex_of(const unsigned char* p, std::size_t n, bool abbreviate = true) {
  static const char* H = "0123456789abcdef";
  std::string s;
  auto put = [&](std::size_t i) {
    s.push_back(H[p[i] >> 4]);
    s.push_back(H[p[i] & 15]);
  };
  if (!abbreviate || n <= 48) {
    for (std::size_t i = 0; i < n; ++i) put(i);
  } else {
    for (std::size_t i = 0; i < 16; ++i) put(i);
    s += "..(" + std::to_string(n) + " bytes)..";
    for (std::size_t i = n - 16; i < n; ++i) put(i);
  }
  return s;
}
std::string hex_of(const std::string& s, bool abbreviate = true) {
  return hex_of(uc(s), s.size(), abbreviate);
}

// Run-length form of a byte string: "01x3.ffx1", empty string = "-".
std::string rle_of(const std::string& t) {
  if (t.empty()) return "-";
  std::string s;
  char buf[48];
  std::size_t i = 0;
  while (i < t.size()) {
    std::size_t j = i;
    while (j < t.size() && t[j] == t[i]) ++j;
    std::snprintf(buf, sizeof buf, "%s%02xx%zu", s.empty() ? "" : ".",
                  static_cast<unsigned>(static_cast<unsigned char>(t[i])), j - i);
    s += buf;
    i = j;
  }
  return s;
}

std::vector<std::string> split(const std::string& s, char sep) {
  std::vector<std::string> out;
  std::string cur;
  for (const char c : s) {
    if (c == sep) { out.push_back(cur); cur.clear(); }
    else cur.push_back(c);
  }
  out.push_back(cur);
  return out;
}

std::string rle_parse(const std::string& s) {
  if (s == "-") return {};
  std::string t;
  for (const auto& run : split(s, '.')) {
    const auto x = run.find('x');
    if (x != 2 || run.size() < 4) die("bad text run in replay arg: " + run);
    const auto byte = static_cast<char>(std::strtoul(run.substr(0, 2).c_str(), nullptr, 16));
    const auto cnt = std::strtoull(run.substr(3).c_str(), nullptr, 10);
    if (cnt == 0 || cnt > (std::uint64_t{1} << 24)) die("bad run length in replay arg");
    t.append(static_cast<std::size_t>(cnt), byte);
  }
  return t;
}

std::string val_str(const Val& v) {
  if (v.k == K_TEXT) return std::string("t=") + rle_of(v.text);
  char buf[48];
  std::snprintf(buf, sizeof buf, "%s=0x%" PRIx64, kind_tag[v.k], v.bits);
  return buf;
}
Val val_parse(const std::string& s) {
  const auto eq = s.find('=');
  if (eq == std::string::npos) die("bad component in replay arg: " + s);
  const std::string tag = s.substr(0, eq);
  const std::string pay = s.substr(eq + 1);
  for (int k = 0; k < K_COUNT; ++k) {
    if (tag == kind_tag[k]) {
      if (k == K_TEXT) return make_text(rle_parse(pay));
      return make_num(static_cast<Kind>(k), std::strtoull(pay.c_str(), nullptr, 16));
    }
  }
  die("bad component kind in replay arg: " + tag);
}
std::string tuple_str(const Tuple& t) {
  std::string s;
  for (std::size_t i = 0; i < t.size(); ++i) {
    if (i) s.push_back(',');
    s += val_str(t[i]);
  }
  return s;
}
Tuple tuple_parse(const std::string& s) {
  Tuple t;
  if (s.empty()) die("empty tuple in replay arg");
  for (const auto& c : split(s, ',')) t.push_back(val_parse(c));
  return t;
}
// Label of the schema of a tuple: "float", "text", "tuple-int32-text-int32".
std::string schema_label(const Tuple& t) {
  if (t.size() == 1) return kind_name[t[0].k];
  std::string s = "tuple";
  for (const auto& v : t) { s.push_back('-'); s += kind_name[v.k]; }
  return s;
}
bool same_schema(const Tuple& a, const Tuple& b) {
  if (a.size() != b.size()) return false;
  for (std::size_t i = 0; i < a.size(); ++i) if (a[i].k != b[i].k) return false;
  return true;
}

// Human-readable numeric rendering for details.
std::string val_human(const Val& v) {
  char buf[96];
  switch (v.k) {
    case K_I8:  std::snprintf(buf, sizeof buf, "%d", static_cast<int>(from_bits<std::int8_t>(static_cast<std::uint8_t>(v.bits)))); break;
    case K_I16: std::snprintf(buf, sizeof buf, "%d", static_cast<int>(from_bits<std::int16_t>(static_cast<std::uint16_t>(v.bits)))); break;
    case K_I32: std::snprintf(buf, sizeof buf, "%" PRId32, from_bits<std::int32_t>(static_cast<std::uint32_t>(v.bits))); break;
    case K_I64: std::snprintf(buf, sizeof buf, "%" PRId64, from_bits<std::int64_t>(v.bits)); break;
    case K_U8: case K_U16: case K_U32: case K_U64:
      std::snprintf(buf, sizeof buf, "%" PRIu64, v.bits); break;
    case K_F32: std::snprintf(buf, sizeof buf, "%.9g", static_cast<double>(from_bits<float>(static_cast<std::uint32_t>(v.bits)))); break;
    case K_F64: std::snprintf(buf, sizeof buf, "%.17g", from_bits<double>(v.bits)); break;
    case K_TEXT: return "text[" + std::to_string(v.text.size()) + "]";
    default: buf[0] = 0;
  }
  return buf;
}
std::string tuple_human(const Tuple& t) {
  std::string s = "(";
  for (std::size_t i = 0; i < t.size(); ++i) { if (i) s += ", "; s += val_human(t[i]); }
  return s + ")";
}

std::string jstr(const std::string& s) {
  std::string o = "\"";
  char buf[8];
  for (const char ch : s) {
    const auto c = static_cast<unsigned char>(ch);
    if (c == '"' || c == '\\') { o.push_back('\\'); o.push_back(ch); }
    else if (c < 0x20 || c >= 0x7f) { std::snprintf(buf, sizeof buf, "\\u%04x", c); o += buf; }
    else o.push_back(ch);
  }
  o.push_back('"');
  return o;
}
// Tiny JSON object builder.
struct JObj {
  std::string s{"{"};
  bool first{true};
  void key(const std::string& k) { if (!first) s += ", "; first = false; s += jstr(k) + ": "; }
  JObj& str(const std::string& k, const std::string& v) { key(k); s += jstr(v); return *this; }
  JObj& num(const std::string& k, std::uint64_t v) { key(k); s += std::to_string(v); return *this; }
  JObj& inum(const std::string& k, std::int64_t v) { key(k); s += std::to_string(v); return *this; }
  JObj& boolean(const std::string& k, bool v) { key(k); s += v ? "true" : "false"; return *this; }
  JObj& raw(const std::string& k, const std::string& v) { key(k); s += v; return *this; }
  std::string done() const { return s + "}"; }
};

// ---------------------------------------------------------------------------
// Violations, parts, threading
// ---------------------------------------------------------------------------

constexpr std::size_t MAX_VIOL = 20;

struct Viol {
  std::uint64_t k1{0}, k2{0};  // position inside the part (deterministic order)
  std::string what, sig, replay, detail;
};

struct Part {
  std::string name;
  std::uint64_t size{0};         // domain elements enumerated
  std::uint64_t checks{0};       // pairs / round trips checked
  std::uint64_t classes{0};      // reference-order classes or distinct values
  std::uint64_t transitions{0};  // encoder / decoder calls
  bool exhaustive{true};
  std::vector<Viol> viols;       // first MAX_VIOL in deterministic order
  std::uint64_t vtotal{0};
  std::string sample;            // JSON object or empty
};

// Per-thread accumulator, merged deterministically.
struct alignas(128) Acc {
  std::uint64_t checks{0}, classes{0}, transitions{0}, vtotal{0};
  std::vector<Viol> viols;
  std::string sample;
  bool want_more() const { return viols.size() < MAX_VIOL; }
};

void merge_into(Part& p, std::vector<Acc>& accs) {
  for (auto& a : accs) {
    p.checks += a.checks;
    p.classes += a.classes;
    p.transitions += a.transitions;
    p.vtotal += a.vtotal;
    for (auto& v : a.viols) p.viols.push_back(std::move(v));
    if (p.sample.empty() && !a.sample.empty()) p.sample = a.sample;
  }
  std::stable_sort(p.viols.begin(), p.viols.end(), [](const Viol& x, const Viol& y) {
    return x.k1 != y.k1 ? x.k1 < y.k1 : x.k2 < y.k2;
  });
  if (p.viols.size() > MAX_VIOL) p.viols.resize(MAX_VIOL);
}

template <class F>
void parallel(int threads, F&& f) {
  std::vector<std::thread> th;
  th.reserve(static_cast<std::size_t>(threads));
  for (int t = 1; t < threads; ++t) th.emplace_back([&f, t] { f(t); });
  f(0);
  for (auto& x : th) x.join();
}

// ---------------------------------------------------------------------------
// Calling the code under test
// ---------------------------------------------------------------------------

inline std::span<const std::byte> as_span(const char* p, std::size_t n) {
  return {reinterpret_cast<const std::byte*>(p), n};
}

// One encoder call for one component. `use_sv` selects the string_view
// overload of encode_text instead of the span overload.
inline void lib_encode(unodb::key_encoder& e, const Val& v, std::uint64_t& calls,
                       bool use_sv = false) {
  ++calls;
  switch (v.k) {
    case K_I8:  e.encode(from_bits<std::int8_t>(static_cast<std::uint8_t>(v.bits))); return;
    case K_U8:  e.encode(static_cast<std::uint8_t>(v.bits)); return;
    case K_I16: e.encode(from_bits<std::int16_t>(static_cast<std::uint16_t>(v.bits))); return;
    case K_U16: e.encode(static_cast<std::uint16_t>(v.bits)); return;
    case K_I32: e.encode(from_bits<std::int32_t>(static_cast<std::uint32_t>(v.bits))); return;
    case K_U32: e.encode(static_cast<std::uint32_t>(v.bits)); return;
    case K_I64: e.encode(from_bits<std::int64_t>(v.bits)); return;
    case K_U64: e.encode(static_cast<std::uint64_t>(v.bits)); return;
    case K_F32: e.encode(from_bits<float>(static_cast<std::uint32_t>(v.bits))); return;
    case K_F64: e.encode(from_bits<double>(v.bits)); return;
    case K_TEXT:
      if (use_sv) e.encode_text(std::string_view(v.text.data(), v.text.size()));
      else e.encode_text(as_span(v.text.data(), v.text.size()));
      return;
    default: break;
  }
  die("lib_encode: bad kind");
}

inline std::string key_bytes(const unodb::key_encoder& e) {
  const auto kv = e.get_key_view();
  return std::string(reinterpret_cast<const char*>(kv.data()), kv.size());
}

std::string encode_fresh(const Tuple& t, std::uint64_t& calls, bool use_sv = false) {
  unodb::key_encoder e;
  for (const auto& v : t) lib_encode(e, v, calls, use_sv);
  return key_bytes(e);
}

// One decoder call for a numeric component; returns the raw bits.
inline std::uint64_t lib_decode(unodb::key_decoder& d, Kind k, std::uint64_t& calls) {
  ++calls;
  switch (k) {
    case K_I8:  { std::int8_t v;   d.decode(v); return to_bits(v); }
    case K_U8:  { std::uint8_t v;  d.decode(v); return v; }
    case K_I16: { std::int16_t v;  d.decode(v); return to_bits(v); }
    case K_U16: { std::uint16_t v; d.decode(v); return v; }
    case K_I32: { std::int32_t v;  d.decode(v); return to_bits(v); }
    case K_U32: { std::uint32_t v; d.decode(v); return v; }
    case K_I64: { std::int64_t v;  d.decode(v); return to_bits(v); }
    case K_U64: { std::uint64_t v; d.decode(v); return v; }
    case K_F32: { float v;         d.decode(v); return to_bits(v); }
    case K_F64: { double v;        d.decode(v); return to_bits(v); }
    default: break;
  }
  die("lib_decode: bad kind");
}

// ---------------------------------------------------------------------------
// Generic single-case evaluators. Every enumerated case that fails on a fast
// path is re-evaluated here to build the violation record, and --replay-arg
// evaluates exactly these functions.
// ---------------------------------------------------------------------------

struct Gen {
  std::vector<Viol> out;
  std::uint64_t calls{0};
  std::string sample;
  bool want_sample{false};
  void add(std::string what, std::string sig, std::string replay, std::string detail) {
    Viol v;
    v.what = std::move(what);
    v.sig = std::move(sig);
    v.replay = std::move(replay);
    v.detail = std::move(detail);
    out.push_back(std::move(v));
  }
};

// ---- C11: order of one pair ----
void gen_check_order(const Tuple& a, const Tuple& b, Gen& g) {
  if (!same_schema(a, b)) die("order: schema mismatch");
  const std::string ea = encode_fresh(a, g.calls);
  const std::string eb = encode_fresh(b, g.calls);
  const int r = ref_cmp_tuple(a, b);
  const int c1 = lib_compare(uc(ea), ea.size(), uc(eb), eb.size());
  const int c2 = indep_compare(uc(ea), ea.size(), uc(eb), eb.size());
  const std::string dom = schema_label(a);
  const std::string replay = "order:" + tuple_str(a) + ":" + tuple_str(b);
  const std::string detail = JObj{}
      .str("a", tuple_str(a)).str("a_value", tuple_human(a)).str("enc_a", hex_of(ea))
      .str("b", tuple_str(b)).str("b_value", tuple_human(b)).str("enc_b", hex_of(eb))
      .inum("ref_cmp", r).inum("lib_compare", c1).inum("indep_compare", c2).done();
  if (g.want_sample) g.sample = detail;
  if (c1 != c2)
    g.add("unodb::detail::compare and the independent bytewise compare disagree on the encodings of " +
              tuple_human(a) + " and " + tuple_human(b),
          "C11/" + dom + "/compare-disagree", replay, detail);
  if (c1 != r || c2 != r) {
    if (r == 0)
      g.add("reference-equal values " + tuple_human(a) + " and " + tuple_human(b) +
                " have different encodings",
            "C11/" + dom + "/equal-class", replay, detail);
    else
      g.add("encodings of " + tuple_human(a) + " and " + tuple_human(b) + " compare " +
                std::to_string(c1) + " but the values compare " + std::to_string(r),
            "C11/" + dom + "/order", replay, detail);
  }
}

// ---- C12: round trip of one numeric value ----
std::uint64_t g_canon_nan[K_COUNT] = {};  // decode(encode(quiet_NaN)) per float kind

struct ReusedEncoders {
  unodb::key_encoder plain;  // never grew beyond the internal buffer
  unodb::key_encoder grown;  // switched to a heap buffer before being reused
  std::uint64_t setup_calls{0};
  ReusedEncoders() {
    const std::string big(600, 'g');
    grown.encode_text(as_span(big.data(), big.size()));
    grown.reset();
    setup_calls = 1;
  }
};

inline bool is_quiet_nan_bits(Kind k, std::uint64_t bits) {
  if (!is_nan_bits(k, bits)) return false;
  return k == K_F32 ? ((bits >> 22) & 1U) != 0 : ((bits >> 51) & 1U) != 0;
}

void gen_check_roundtrip(const Val& v, ReusedEncoders& re, Gen& g) {
  if (v.k == K_TEXT) die("rt: text has no decoder");
  const std::string dom = kind_name[v.k];
  const std::string replay = "rt:" + val_str(v);
  const std::size_t want = kind_size[v.k];
  std::string a;
  {
    unodb::key_encoder e;
    lib_encode(e, v, g.calls);
    a = key_bytes(e);
  }
  std::uint64_t y = 0;
  bool decoded = false;
  if (a.size() >= want) {
    unodb::key_decoder d{unodb::key_view(reinterpret_cast<const std::byte*>(a.data()), a.size())};
    y = lib_decode(d, v.k, g.calls);
    decoded = true;
  }
  // reused after reset(), with unrelated content encoded before the reset
  re.plain.reset();
  re.plain.encode(std::uint64_t{0xA5A5A5A5A5A5A5A5ULL});
  re.plain.reset();
  lib_encode(re.plain, v, g.calls);
  const std::string b = key_bytes(re.plain);
  re.grown.reset();
  re.grown.encode(std::uint32_t{0x5A5A5A5AU});
  re.grown.reset();
  lib_encode(re.grown, v, g.calls);
  const std::string c = key_bytes(re.grown);
  g.calls += 2;

  char ybuf[32];
  std::snprintf(ybuf, sizeof ybuf, "0x%" PRIx64, y);
  const std::string detail = JObj{}
      .str("value", val_str(v)).str("human", val_human(v)).str("enc", hex_of(a))
      .num("enc_size", a.size()).str("decoded_bits", decoded ? ybuf : "n/a")
      .str("enc_reused", hex_of(b)).str("enc_reused_grown", hex_of(c)).done();
  if (g.want_sample) g.sample = detail;

  if (a.size() != want)
    g.add("encoding of " + dom + " " + val_human(v) + " occupies " + std::to_string(a.size()) +
              " bytes, not " + std::to_string(want),
          "C12/" + dom + "/size", replay, detail);
  if (decoded) {
    if (is_nan_bits(v.k, v.bits)) {
      if (!is_quiet_nan_bits(v.k, y) || y != g_canon_nan[v.k])
        g.add("NaN " + val_str(v) + " does not decode to the canonical quiet NaN (got " + ybuf + ")",
              "C12/" + dom + "/nan", replay, detail);
    } else if (y != v.bits) {
      g.add("decode(encode(x)) differs from x for " + dom + " " + val_str(v) + " (got " + ybuf + ")",
            "C12/" + dom + "/roundtrip", replay, detail);
    }
  }
  if (b != a)
    g.add("encoder reused after reset() yields different bytes than a fresh one for " + val_str(v),
          "C12/" + dom + "/reset", replay, detail);
  if (c != a)
    g.add("previously grown encoder reused after reset() yields different bytes than a fresh one for " +
              val_str(v),
          "C12/" + dom + "/reset-grown", replay, detail);
}

// ---- C12: one component sequence (buffer growth, reuse, in-order decode) ----
void gen_check_seq(const Tuple& t, unodb::key_encoder& reused, Gen& g) {
  const std::string replay = "seq:" + tuple_str(t);
  std::string concat;
  std::vector<std::size_t> sizes;
  sizes.reserve(t.size());
  for (const auto& v : t) {
    unodb::key_encoder e;
    lib_encode(e, v, g.calls);
    const auto kv = e.get_key_view();
    concat.append(reinterpret_cast<const char*>(kv.data()), kv.size());
    sizes.push_back(kv.size());
  }
  const std::string a = encode_fresh(t, g.calls);
  reused.reset();
  for (const auto& v : t) lib_encode(reused, v, g.calls);
  const std::string b = key_bytes(reused);

  auto first_diff = [](const std::string& x, const std::string& y) {
    std::size_t i = 0;
    while (i < x.size() && i < y.size() && x[i] == y[i]) ++i;
    return i;
  };
  JObj dj;
  dj.num("components", t.size()).num("concat_size", concat.size())
      .num("fresh_size", a.size()).num("reused_size", b.size())
      .str("schema", schema_label(t).substr(0, 200))
      .str("enc", hex_of(a));
  if (g.want_sample) g.sample = dj.done();

  if (a != concat) {
    JObj d2 = dj;
    d2.num("first_difference_at", first_diff(a, concat));
    g.add("a fresh encoder fed " + std::to_string(t.size()) + " components (" +
              std::to_string(concat.size()) +
              " bytes) yields bytes different from the concatenation of the individually encoded components",
          concat.size() > unodb::detail::INITIAL_BUFFER_CAPACITY ? "C12/seq/grow" : "C12/seq/concat",
          replay, d2.done());
  }
  if (b != concat) {
    JObj d2 = dj;
    d2.num("first_difference_at", first_diff(b, concat));
    g.add("an encoder reused after reset() fed " + std::to_string(t.size()) +
              " components yields bytes different from the concatenation of the individually encoded components",
          "C12/seq/reset", replay, d2.done());
  }
  if (a == concat) {
    const unodb::key_view kv(reinterpret_cast<const std::byte*>(a.data()), a.size());
    std::size_t off = 0;
    unodb::key_decoder* dec = nullptr;
    alignas(unodb::key_decoder) unsigned char store[sizeof(unodb::key_decoder)];
    auto restart = [&](std::size_t at) {
      dec = new (store) unodb::key_decoder(kv.subspan(at));  // trivially destructible
    };
    static_assert(std::is_trivially_destructible_v<unodb::key_decoder>);
    restart(0);
    for (std::size_t i = 0; i < t.size(); ++i) {
      const Val& v = t[i];
      if (v.k == K_TEXT) {  // no text decoder exists: step over the field
        off += sizes[i];
        restart(off);
        continue;
      }
      if (off + kind_size[v.k] > a.size()) break;  // size violation reported by rt
      const std::uint64_t y = lib_decode(*dec, v.k, g.calls);
      off += kind_size[v.k];
      const bool ok = is_nan_bits(v.k, v.bits)
                          ? (is_quiet_nan_bits(v.k, y) && y == g_canon_nan[v.k])
                          : (y == v.bits);
      if (!ok) {
        char ybuf[32];
        std::snprintf(ybuf, sizeof ybuf, "0x%" PRIx64, y);
        JObj d2 = dj;
        d2.num("component_index", i).str("component", val_str(v)).str("decoded_bits", ybuf);
        g.add("decoder returned " + std::string(ybuf) + " for component " + std::to_string(i) +
                  " (" + val_str(v) + ") of a " + std::to_string(t.size()) + "-component key",
              "C12/seq/decode", replay, d2.done());
        break;
      }
    }
  }
}

// ---- C15: byte-equality / prefix-freedom of one pair ----
inline bool proper_prefix(const std::string& x, const std::string& y) {
  return x.size() < y.size() && std::memcmp(x.data(), y.data(), x.size()) == 0;
}
void gen_check_prefix(const Tuple& a, const Tuple& b, Gen& g) {
  if (!same_schema(a, b)) die("pf: schema mismatch");
  const std::string ea = encode_fresh(a, g.calls);
  const std::string eb = encode_fresh(b, g.calls);
  const bool eq_ref = norm_equal_tuple(a, b);
  const bool eq_enc = (ea == eb);
  const bool pre = proper_prefix(ea, eb) || proper_prefix(eb, ea);
  const std::string dom = schema_label(a);
  const std::string replay = "pf:" + tuple_str(a) + ":" + tuple_str(b);
  const std::string detail = JObj{}
      .str("a", tuple_str(a)).str("enc_a", hex_of(ea)).num("enc_a_size", ea.size())
      .str("b", tuple_str(b)).str("enc_b", hex_of(eb)).num("enc_b_size", eb.size())
      .boolean("equal_after_normalisation", eq_ref).boolean("encodings_equal", eq_enc)
      .boolean("one_is_proper_prefix", pre).done();
  if (g.want_sample) g.sample = detail;
  if (eq_ref && !eq_enc)
    g.add("keys with equal components after normalisation are not byte-equal: " + tuple_str(a) +
              " vs " + tuple_str(b),
          "C15/" + dom + "/equal-components-differ", replay, detail);
  if (!eq_ref && eq_enc)
    g.add("keys with different components are byte-equal: " + tuple_str(a) + " vs " + tuple_str(b),
          "C15/" + dom + "/collision", replay, detail);
  if (!eq_ref && pre)
    g.add("one key is a proper prefix of the other: " + tuple_str(a) + " vs " + tuple_str(b),
          "C15/" + dom + "/prefix", replay, detail);
}

// ---- C15: output size bound and agreement of the two encode_text overloads ----
void gen_check_outsize(const Tuple& t, Gen& g) {
  const std::string e1 = encode_fresh(t, g.calls, false);
  const std::string e2 = encode_fresh(t, g.calls, true);
  std::size_t bound = 0;
  for (const auto& v : t) bound += (v.k == K_TEXT) ? MAXLEN + TEXT_TERMINATOR : kind_size[v.k];
  const std::string dom = schema_label(t);
  const std::string replay = "osz:" + tuple_str(t);
  const std::string detail = JObj{}
      .str("key", tuple_str(t)).num("enc_size", e1.size()).num("bound", bound)
      .str("enc_span_overload", hex_of(e1)).str("enc_string_view_overload", hex_of(e2)).done();
  if (g.want_sample) g.sample = detail;
  if (e1.size() > bound || e2.size() > bound)
    g.add("encoded key of " + std::to_string(e1.size()) + " bytes exceeds the bound of " +
              std::to_string(bound) + " bytes (maxlen plus three-byte terminator per text component)",
          "C15/" + dom + "/output-size", replay, detail);
  if (e1 != e2)
    g.add("the span and string_view overloads of encode_text produce different keys for equal components",
          "C15/" + dom + "/overload-mismatch", replay, detail);
}

// ---- C15: encode_text must not read input beyond maxlen bytes ----
struct GuardArena {
  unsigned char* base{nullptr};
  unsigned char* boundary{nullptr};  // first byte of the PROT_NONE page
  std::size_t page{0};
  std::size_t total{0};
};
GuardArena g_arena;
sigjmp_buf g_jb;
volatile std::sig_atomic_t g_guard_active = 0;
volatile std::uintptr_t g_fault_addr = 0;

void segv_handler(int, siginfo_t* si, void*) {
  const auto addr = reinterpret_cast<std::uintptr_t>(si->si_addr);
  const auto lo = reinterpret_cast<std::uintptr_t>(g_arena.boundary);
  if (g_guard_active && addr >= lo && addr < lo + g_arena.page) {
    g_fault_addr = addr;
    siglongjmp(g_jb, 1);
  }
  std::signal(SIGSEGV, SIG_DFL);  // not ours: let it crash (infrastructure error)
}

void guard_setup() {
  if (g_arena.base != nullptr) return;
  const auto page = static_cast<std::size_t>(sysconf(_SC_PAGESIZE));
  const std::size_t acc_pages = (MAXLEN + page - 1) / page + 1;
  const std::size_t total = (acc_pages + 1) * page;
  void* p = mmap(nullptr, total, PROT_READ | PROT_WRITE, MAP_PRIVATE | MAP_ANONYMOUS, -1, 0);
  if (p == MAP_FAILED) die("mmap failed");
  g_arena.base = static_cast<unsigned char*>(p);
  g_arena.page = page;
  g_arena.total = total;
  g_arena.boundary = g_arena.base + acc_pages * page;
  if (mprotect(g_arena.boundary, page, PROT_NONE) != 0) die("mprotect failed");
  struct sigaction sa;
  std::memset(&sa, 0, sizeof sa);
  sa.sa_sigaction = segv_handler;
  sa.sa_flags = SA_SIGINFO | SA_NODEFER;
  sigemptyset(&sa.sa_mask);
  if (sigaction(SIGSEGV, &sa, nullptr) != 0) die("sigaction failed");
}

// `content` has exactly MAXLEN bytes; it is placed so that it ends at the page
// boundary and handed to encode_text with nominal length `nominal` > MAXLEN.
// Must run on the main thread.
void gen_check_guard(const std::string& content, std::uint64_t nominal, bool use_sv, Gen& g) {
  if (content.size() != MAXLEN) die("guard: content must have exactly maxlen bytes");
  if (nominal <= MAXLEN) die("guard: nominal length must exceed maxlen");
  guard_setup();
  unsigned char* const at = g_arena.boundary - MAXLEN;
  std::memcpy(at, content.data(), MAXLEN);
  const std::string replay = "guard:" + rle_of(content) + ":" + std::to_string(nominal) + ":" +
                             (use_sv ? "sv" : "span");
  // baseline: same bytes from ordinary memory with their exact length
  std::string base;
  {
    unodb::key_encoder e;
    ++g.calls;
    e.encode_text(as_span(content.data(), content.size()));
    base = key_bytes(e);
  }
  // Heap-allocated and leaked on a fault: no destructor runs across siglongjmp.
  auto* volatile enc = new unodb::key_encoder();
  volatile bool faulted = false;
  std::string got;
  g_fault_addr = 0;
  ++g.calls;
  if (sigsetjmp(g_jb, 1) == 0) {
    g_guard_active = 1;
    if (use_sv)
      enc->encode_text(std::string_view(reinterpret_cast<const char*>(at),
                                        static_cast<std::size_t>(nominal)));
    else
      enc->encode_text(std::span<const std::byte>(reinterpret_cast<const std::byte*>(at),
                                                  static_cast<std::size_t>(nominal)));
    g_guard_active = 0;
    got = key_bytes(*enc);
    delete enc;
  } else {
    g_guard_active = 0;
    faulted = true;
  }
  JObj dj;
  dj.str("content", rle_of(content)).num("nominal_length", nominal)
      .str("overload", use_sv ? "string_view" : "span").boolean("faulted", faulted);
  if (faulted)
    dj.num("fault_offset_in_input",
           static_cast<std::uint64_t>(g_fault_addr - reinterpret_cast<std::uintptr_t>(at)));
  else
    dj.num("enc_size", got.size()).str("enc", hex_of(got));
  const std::string detail = dj.done();
  if (g.want_sample) g.sample = detail;
  if (faulted) {
    g.add("encode_text read input byte at offset " +
              std::to_string(static_cast<std::uint64_t>(
                  g_fault_addr - reinterpret_cast<std::uintptr_t>(at))) +
              " (at or beyond maxlen) of a text with nominal length " + std::to_string(nominal),
          "C15/text/overread", replay, detail);
    return;
  }
  if (got.size() > MAXLEN + TEXT_TERMINATOR)
    g.add("text component encoded to " + std::to_string(got.size()) + " bytes, more than maxlen+3",
          "C15/text/output-size", replay, detail);
  if (got != base)
    g.add("text of nominal length " + std::to_string(nominal) +
              " is not byte-equal to the encoding of its first maxlen bytes",
          "C15/text/equal-components-differ", replay, detail);
}

// PART2-END
