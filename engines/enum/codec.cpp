// Engine C ("enum"): exhaustive input enumeration for the unodb key codec.
// Decides properties C11 (order preservation), C12 (decode inverts encode) and
// C15 (prefix-freedom contract) over complete finite domains.
//
// Build:  g++ -std=c++20 -O2 -mavx2 -DUNODB_DETAIL_VERIF_HOOKS -I/repo -pthread codec.cpp -o codec
// Run:    codec --property C11|C12|C15 --tier quick|thorough --out r.json
//               [--threads N] [--only <part>] [--replay-arg <s>]
//
// No randomness, no wall clock, no address-dependent decisions or counts.
// Every call into the code under test runs in a forked single-threaded worker
// process (fixed slices of numbered cases); a worker that dies is turned into
// a `<property>/<domain>/crash` violation for the case it had announced.

// Should be the first include (repo convention)
#include "global.hpp"

#include "art_common.hpp"
#include "art_internal.hpp"

#include <algorithm>
#include <array>
#include <cerrno>
#include <cinttypes>
#include <csetjmp>
#include <csignal>
#include <cstddef>
#include <cstdint>
#include <cstdio>
#include <cstdlib>
#include <cstring>
#include <deque>
#include <functional>
#include <limits>
#include <span>
#include <string>
#include <string_view>
#include <type_traits>
#include <vector>

#include <poll.h>
#include <sys/mman.h>
#include <sys/types.h>
#include <sys/wait.h>
#include <unistd.h>

namespace {

// ---------------------------------------------------------------------------
// Basics
// ---------------------------------------------------------------------------

[[noreturn]] void die(const std::string& m) {
  std::fprintf(stderr, "codec runner: infrastructure error: %s\n", m.c_str());
  std::fflush(stderr);
  std::_Exit(2);
}

// The maximum text length is a documented constant of the encoder; the
// reference normalisation is defined relative to it.
constexpr std::size_t MAXLEN = unodb::key_encoder::maxlen;
// "plus the three-byte terminator" (statement of C15): pad byte + 2-byte run.
constexpr std::size_t TEXT_TERMINATOR = 3;

enum Kind : int {
  K_I8, K_U8, K_I16, K_U16, K_I32, K_U32, K_I64, K_U64, K_F32, K_F64, K_TEXT,
  K_COUNT
};
const char* const kind_tag[K_COUNT] = {"i8",  "u8",  "i16", "u16", "i32", "u32",
                                       "i64", "u64", "f32", "f64", "t"};
const char* const kind_name[K_COUNT] = {"int8",  "uint8",  "int16", "uint16",
                                        "int32", "uint32", "int64", "uint64",
                                        "float", "double", "text"};
const std::size_t kind_size[K_COUNT] = {1, 1, 2, 2, 4, 4, 8, 8, 4, 8, 0};

struct Val {
  Kind k{K_U8};
  std::uint64_t bits{0};  // numeric: raw bit pattern, zero-extended
  std::string text;       // text: the input bytes as given
  std::string norm;       // text: reference normalisation of `text`
};
using Tuple = std::vector<Val>;

// Reference normalisation of text, written from the property statement: cut to
// the maximum length, then remove trailing zero padding.
std::string normalise_text(const std::string& t) {
  std::size_t n = t.size() < MAXLEN ? t.size() : MAXLEN;
  while (n > 0 && t[n - 1] == '\0') --n;
  return t.substr(0, n);
}

// A zero byte followed somewhere later by a non-zero byte.
bool has_interior_zero(const std::string& t) {
  bool seen_zero = false;
  for (const char c : t) {
    if (c == '\0') seen_zero = true;
    else if (seen_zero) return true;
  }
  return false;
}

Val make_num(Kind k, std::uint64_t bits) {
  Val v;
  v.k = k;
  const std::size_t sz = kind_size[k];
  v.bits = (sz == 8) ? bits : (bits & ((std::uint64_t{1} << (8 * sz)) - 1));
  return v;
}

Val make_text(std::string s) {
  Val v;
  v.k = K_TEXT;
  v.text = std::move(s);
  v.norm = normalise_text(v.text);
  return v;
}

template <class T> struct Traits;
template <> struct Traits<std::int8_t>   { static constexpr Kind kind = K_I8;  using U = std::uint8_t;  };
template <> struct Traits<std::uint8_t>  { static constexpr Kind kind = K_U8;  using U = std::uint8_t;  };
template <> struct Traits<std::int16_t>  { static constexpr Kind kind = K_I16; using U = std::uint16_t; };
template <> struct Traits<std::uint16_t> { static constexpr Kind kind = K_U16; using U = std::uint16_t; };
template <> struct Traits<std::int32_t>  { static constexpr Kind kind = K_I32; using U = std::uint32_t; };
template <> struct Traits<std::uint32_t> { static constexpr Kind kind = K_U32; using U = std::uint32_t; };
template <> struct Traits<std::int64_t>  { static constexpr Kind kind = K_I64; using U = std::uint64_t; };
template <> struct Traits<std::uint64_t> { static constexpr Kind kind = K_U64; using U = std::uint64_t; };
template <> struct Traits<float>         { static constexpr Kind kind = K_F32; using U = std::uint32_t; };
template <> struct Traits<double>        { static constexpr Kind kind = K_F64; using U = std::uint64_t; };

template <class T>
inline T from_bits(typename Traits<T>::U b) noexcept {
  T v;
  std::memcpy(&v, &b, sizeof v);
  return v;
}
template <class T>
inline typename Traits<T>::U to_bits(T v) noexcept {
  typename Traits<T>::U b;
  std::memcpy(&b, &v, sizeof b);
  return b;
}

// ---------------------------------------------------------------------------
// Reference orders (independent of the code under test)
// ---------------------------------------------------------------------------

// Integers: the language's integer compare. Floating point: hardware compare
// for ordered values, -0 below +0, every NaN above everything, NaNs equal.
template <class T>
inline int ref_cmp_num(T a, T b) noexcept {
  if constexpr (std::is_floating_point_v<T>) {
    const bool an = (a != a);
    const bool bn = (b != b);
    if (an || bn) return (an && bn) ? 0 : (an ? 1 : -1);
    if (a < b) return -1;
    if (a > b) return 1;
    const bool as = std::signbit(a);
    const bool bs = std::signbit(b);
    if (as == bs) return 0;
    return as ? -1 : 1;
  } else {
    return (a < b) ? -1 : ((a > b) ? 1 : 0);
  }
}

// Independently written bytewise lexicographic compare, shorter is smaller on
// an equal prefix.
inline int indep_compare(const unsigned char* a, std::size_t al,
                         const unsigned char* b, std::size_t bl) noexcept {
  std::size_t i = 0;
  const std::size_t n = al < bl ? al : bl;
  while (i + 8 <= n) {  // skip equal 8-byte groups, then decide bytewise
    std::uint64_t wa, wb;
    std::memcpy(&wa, a + i, 8);
    std::memcpy(&wb, b + i, 8);
    if (wa != wb) break;
    i += 8;
  }
  while (i < n) {
    if (a[i] != b[i]) return (a[i] < b[i]) ? -1 : 1;
    ++i;
  }
  if (al == bl) return 0;
  return (al < bl) ? -1 : 1;
}
inline int sgn(int x) noexcept { return (x > 0) - (x < 0); }

// The comparison the index uses.
inline int lib_compare(const unsigned char* a, std::size_t al,
                       const unsigned char* b, std::size_t bl) noexcept {
  return sgn(unodb::detail::compare(a, al, b, bl));
}
inline const unsigned char* uc(const std::string& s) {
  return reinterpret_cast<const unsigned char*>(s.data());
}

int ref_cmp_val(const Val& a, const Val& b) {
  if (a.k != b.k) die("ref_cmp_val: kind mismatch");
  switch (a.k) {
    case K_I8:  return ref_cmp_num(from_bits<std::int8_t>(static_cast<std::uint8_t>(a.bits)), from_bits<std::int8_t>(static_cast<std::uint8_t>(b.bits)));
    case K_U8:  return ref_cmp_num(static_cast<std::uint8_t>(a.bits), static_cast<std::uint8_t>(b.bits));
    case K_I16: return ref_cmp_num(from_bits<std::int16_t>(static_cast<std::uint16_t>(a.bits)), from_bits<std::int16_t>(static_cast<std::uint16_t>(b.bits)));
    case K_U16: return ref_cmp_num(static_cast<std::uint16_t>(a.bits), static_cast<std::uint16_t>(b.bits));
    case K_I32: return ref_cmp_num(from_bits<std::int32_t>(static_cast<std::uint32_t>(a.bits)), from_bits<std::int32_t>(static_cast<std::uint32_t>(b.bits)));
    case K_U32: return ref_cmp_num(static_cast<std::uint32_t>(a.bits), static_cast<std::uint32_t>(b.bits));
    case K_I64: return ref_cmp_num(from_bits<std::int64_t>(a.bits), from_bits<std::int64_t>(b.bits));
    case K_U64: return ref_cmp_num(a.bits, b.bits);
    case K_F32: return ref_cmp_num(from_bits<float>(static_cast<std::uint32_t>(a.bits)), from_bits<float>(static_cast<std::uint32_t>(b.bits)));
    case K_F64: return ref_cmp_num(from_bits<double>(a.bits), from_bits<double>(b.bits));
    case K_TEXT:
      return indep_compare(uc(a.norm), a.norm.size(), uc(b.norm), b.norm.size());
    default: break;
  }
  die("ref_cmp_val: bad kind");
}

int ref_cmp_tuple(const Tuple& a, const Tuple& b) {
  if (a.size() != b.size()) die("ref_cmp_tuple: schema mismatch");
  for (std::size_t i = 0; i < a.size(); ++i) {
    const int r = ref_cmp_val(a[i], b[i]);
    if (r != 0) return r;
  }
  return 0;
}

// Equality after the documented normalisation (C15), written separately from
// the order above: NaN recognised from the bit pattern, -0 and +0 distinct.
bool is_nan_bits(Kind k, std::uint64_t bits) {
  if (k == K_F32) return ((bits >> 23) & 0xFFU) == 0xFFU && (bits & 0x7FFFFFU) != 0;
  if (k == K_F64) return ((bits >> 52) & 0x7FFU) == 0x7FFU && (bits & 0xFFFFFFFFFFFFFULL) != 0;
  return false;
}
bool norm_equal_val(const Val& a, const Val& b) {
  if (a.k != b.k) die("norm_equal_val: kind mismatch");
  if (a.k == K_TEXT) return a.norm == b.norm;
  if (is_nan_bits(a.k, a.bits) && is_nan_bits(b.k, b.bits)) return true;
  return a.bits == b.bits;
}
bool norm_equal_tuple(const Tuple& a, const Tuple& b) {
  if (a.size() != b.size()) die("norm_equal_tuple: schema mismatch");
  for (std::size_t i = 0; i < a.size(); ++i)
    if (!norm_equal_val(a[i], b[i])) return false;
  return true;
}

// ---------------------------------------------------------------------------
// Strings: hex, RLE text, value / tuple (de)serialisation, JSON
// ---------------------------------------------------------------------------

std::string hex_of(const unsigned char* p, std::size_t n, bool abbreviate = true) {
  static const char* H = "0123456789abcdef";
  std::string s;
  auto put = [&](std::size_t i) {
    s.push_back(H[p[i] >> 4]);
    s.push_back(H[p[i] & 15]);
  };
  if (!abbreviate || n <= 48) {
    for (std::size_t i = 0; i < n; ++i) put(i);
  } else {
    for (std::size_t i = 0; i < 16; ++i) put(i);
    s += "..(" + std::to_string(n) + " bytes)..";
    for (std::size_t i = n - 16; i < n; ++i) put(i);
  }
  return s;
}
std::string hex_of(const std::string& s, bool abbreviate = true) {
  return hex_of(uc(s), s.size(), abbreviate);
}

// Run-length form of a byte string: "01x3.ffx1", empty string = "-".
std::string rle_of(const std::string& t) {
  if (t.empty()) return "-";
  std::string s;
  char buf[48];
  std::size_t i = 0;
  while (i < t.size()) {
    std::size_t j = i;
    while (j < t.size() && t[j] == t[i]) ++j;
    std::snprintf(buf, sizeof buf, "%s%02xx%zu", s.empty() ? "" : ".",
                  static_cast<unsigned>(static_cast<unsigned char>(t[i])), j - i);
    s += buf;
    i = j;
  }
  return s;
}

std::vector<std::string> split(const std::string& s, char sep) {
  std::vector<std::string> out;
  std::string cur;
  for (const char c : s) {
    if (c == sep) { out.push_back(cur); cur.clear(); }
    else cur.push_back(c);
  }
  out.push_back(cur);
  return out;
}

std::string rle_parse(const std::string& s) {
  if (s == "-") return {};
  std::string t;
  for (const auto& run : split(s, '.')) {
    const auto x = run.find('x');
    if (x != 2 || run.size() < 4) die("bad text run in replay arg: " + run);
    const auto byte = static_cast<char>(std::strtoul(run.substr(0, 2).c_str(), nullptr, 16));
    const auto cnt = std::strtoull(run.substr(3).c_str(), nullptr, 10);
    if (cnt == 0 || cnt > (std::uint64_t{1} << 24)) die("bad run length in replay arg");
    t.append(static_cast<std::size_t>(cnt), byte);
  }
  return t;
}

std::string val_str(const Val& v) {
  if (v.k == K_TEXT) return std::string("t=") + rle_of(v.text);
  char buf[48];
  std::snprintf(buf, sizeof buf, "%s=0x%" PRIx64, kind_tag[v.k], v.bits);
  return buf;
}
Val val_parse(const std::string& s) {
  const auto eq = s.find('=');
  if (eq == std::string::npos) die("bad component in replay arg: " + s);
  const std::string tag = s.substr(0, eq);
  const std::string pay = s.substr(eq + 1);
  for (int k = 0; k < K_COUNT; ++k) {
    if (tag == kind_tag[k]) {
      if (k == K_TEXT) return make_text(rle_parse(pay));
      return make_num(static_cast<Kind>(k), std::strtoull(pay.c_str(), nullptr, 16));
    }
  }
  die("bad component kind in replay arg: " + tag);
}
std::string tuple_str(const Tuple& t) {
  std::string s;
  for (std::size_t i = 0; i < t.size(); ++i) {
    if (i) s.push_back(',');
    s += val_str(t[i]);
  }
  return s;
}
Tuple tuple_parse(const std::string& s) {
  Tuple t;
  if (s.empty()) die("empty tuple in replay arg");
  for (const auto& c : split(s, ',')) t.push_back(val_parse(c));
  return t;
}
// Label of the schema of a tuple: "float", "text", "tuple-int32-text-int32".
std::string schema_label(const Tuple& t) {
  if (t.size() == 1) return kind_name[t[0].k];
  std::string s = "tuple";
  for (const auto& v : t) { s.push_back('-'); s += kind_name[v.k]; }
  return s;
}
bool same_schema(const Tuple& a, const Tuple& b) {
  if (a.size() != b.size()) return false;
  for (std::size_t i = 0; i < a.size(); ++i) if (a[i].k != b[i].k) return false;
  return true;
}

// Human-readable numeric rendering for details.
std::string val_human(const Val& v) {
  char buf[96];
  switch (v.k) {
    case K_I8:  std::snprintf(buf, sizeof buf, "%d", static_cast<int>(from_bits<std::int8_t>(static_cast<std::uint8_t>(v.bits)))); break;
    case K_I16: std::snprintf(buf, sizeof buf, "%d", static_cast<int>(from_bits<std::int16_t>(static_cast<std::uint16_t>(v.bits)))); break;
    case K_I32: std::snprintf(buf, sizeof buf, "%" PRId32, from_bits<std::int32_t>(static_cast<std::uint32_t>(v.bits))); break;
    case K_I64: std::snprintf(buf, sizeof buf, "%" PRId64, from_bits<std::int64_t>(v.bits)); break;
    case K_U8: case K_U16: case K_U32: case K_U64:
      std::snprintf(buf, sizeof buf, "%" PRIu64, v.bits); break;
    case K_F32: std::snprintf(buf, sizeof buf, "%.9g", static_cast<double>(from_bits<float>(static_cast<std::uint32_t>(v.bits)))); break;
    case K_F64: std::snprintf(buf, sizeof buf, "%.17g", from_bits<double>(v.bits)); break;
    case K_TEXT: return "text[" + std::to_string(v.text.size()) + "]";
    default: buf[0] = 0;
  }
  return buf;
}
std::string tuple_human(const Tuple& t) {
  std::string s = "(";
  for (std::size_t i = 0; i < t.size(); ++i) { if (i) s += ", "; s += val_human(t[i]); }
  return s + ")";
}

std::string jstr(const std::string& s) {
  std::string o = "\"";
  char buf[8];
  for (const char ch : s) {
    const auto c = static_cast<unsigned char>(ch);
    if (c == '"' || c == '\\') { o.push_back('\\'); o.push_back(ch); }
    else if (c < 0x20 || c >= 0x7f) { std::snprintf(buf, sizeof buf, "\\u%04x", c); o += buf; }
    else o.push_back(ch);
  }
  o.push_back('"');
  return o;
}
// Tiny JSON object builder.
struct JObj {
  std::string s{"{"};
  bool first{true};
  void key(const std::string& k) { if (!first) s += ", "; first = false; s += jstr(k) + ": "; }
  JObj& str(const std::string& k, const std::string& v) { key(k); s += jstr(v); return *this; }
  JObj& num(const std::string& k, std::uint64_t v) { key(k); s += std::to_string(v); return *this; }
  JObj& inum(const std::string& k, std::int64_t v) { key(k); s += std::to_string(v); return *this; }
  JObj& boolean(const std::string& k, bool v) { key(k); s += v ? "true" : "false"; return *this; }
  JObj& raw(const std::string& k, const std::string& v) { key(k); s += v; return *this; }
  std::string done() const { return s + "}"; }
};

// ---------------------------------------------------------------------------
// Violations, parts, contained execution
// ---------------------------------------------------------------------------

constexpr std::size_t MAX_VIOL = 20;

struct Viol {
  std::uint64_t k1{0}, k2{0};  // position inside the part (deterministic order)
  std::string what, sig, replay, detail;
};

struct Part {
  std::string name;
  std::uint64_t size{0};         // domain elements enumerated
  std::uint64_t checks{0};       // pairs / round trips checked
  std::uint64_t classes{0};      // reference-order classes or distinct values
  std::uint64_t transitions{0};  // encoder / decoder calls
  std::uint64_t crashes{0};      // cases in which the code under test crashed
  bool exhaustive{true};
  std::vector<Viol> viols;       // first MAX_VIOL in deterministic order
  std::uint64_t vtotal{0};
  std::string sample;            // JSON object or empty
};

// Accumulator of one executed range of cases, merged deterministically.
struct Acc {
  std::uint64_t checks{0}, classes{0}, transitions{0}, vtotal{0};
  std::vector<Viol> viols;
  std::string sample;
  std::string blob;  // part-specific payload returned to the parent
  bool want_more() const { return viols.size() < MAX_VIOL; }
};

// ---- (de)serialisation of an Acc for the pipe between worker and parent ----
struct Writer {
  std::string b;
  void u64(std::uint64_t v) { b.append(reinterpret_cast<const char*>(&v), sizeof v); }
  void str(const std::string& s) { u64(s.size()); b += s; }
};
struct Reader {
  const std::string& b;
  std::size_t pos{0};
  bool ok{true};
  std::uint64_t u64() {
    std::uint64_t v = 0;
    if (pos + sizeof v > b.size()) { ok = false; return 0; }
    std::memcpy(&v, b.data() + pos, sizeof v);
    pos += sizeof v;
    return v;
  }
  std::string str() {
    const std::uint64_t n = u64();
    if (!ok || n > b.size() - pos) { ok = false; return {}; }
    std::string s = b.substr(pos, static_cast<std::size_t>(n));
    pos += static_cast<std::size_t>(n);
    return s;
  }
};
void put_acc(Writer& w, const Acc& a) {
  w.u64(0x41434331);  // magic
  w.u64(a.checks); w.u64(a.classes); w.u64(a.transitions); w.u64(a.vtotal);
  w.u64(a.viols.size());
  for (const auto& v : a.viols) {
    w.u64(v.k1); w.u64(v.k2);
    w.str(v.what); w.str(v.sig); w.str(v.replay); w.str(v.detail);
  }
  w.str(a.sample);
  w.str(a.blob);
  w.u64(0x454e4421);  // end marker
}
bool get_acc(const std::string& buf, Acc& a) {
  Reader r{buf};
  if (r.u64() != 0x41434331) return false;
  a.checks = r.u64(); a.classes = r.u64(); a.transitions = r.u64(); a.vtotal = r.u64();
  const std::uint64_t n = r.u64();
  if (!r.ok || n > 4 * MAX_VIOL) return false;
  for (std::uint64_t i = 0; i < n; ++i) {
    Viol v;
    v.k1 = r.u64(); v.k2 = r.u64();
    v.what = r.str(); v.sig = r.str(); v.replay = r.str(); v.detail = r.str();
    a.viols.push_back(std::move(v));
  }
  a.sample = r.str();
  a.blob = r.str();
  return r.u64() == 0x454e4421 && r.ok && r.pos == buf.size();
}

// ---- contained execution -------------------------------------------------
// Every call into the code under test happens in a forked, single-threaded
// worker process. The cases of a part are numbered 0..ncases-1 and cut into
// fixed slices (independent of --threads, which only bounds the number of
// concurrently running workers). A worker announces the case it is about to
// evaluate in a shared-memory slot; if it dies, the parent knows the crashing
// case, re-runs the cases before it and continues after it in fresh workers.

constexpr std::uint64_t PROGRESS_NONE = ~std::uint64_t{0};
constexpr std::size_t BOARD_SLOTS = 256;
constexpr std::size_t BOARD_STRIDE = 8;  // 64 bytes per slot
volatile std::uint64_t* g_board = nullptr;

void board_setup() {
  void* p = mmap(nullptr, BOARD_SLOTS * BOARD_STRIDE * sizeof(std::uint64_t), PROT_READ | PROT_WRITE,
                 MAP_SHARED | MAP_ANONYMOUS, -1, 0);
  if (p == MAP_FAILED) die("mmap of the progress board failed");
  g_board = static_cast<volatile std::uint64_t*>(p);
}

using RangeFn = std::function<void(std::uint64_t lo, std::uint64_t hi, Acc& acc,
                                   volatile std::uint64_t* progress)>;

struct Piece {
  std::uint64_t lo{0}, hi{0};
  Acc acc;
};
struct Crash {
  std::uint64_t lo{0}, hi{0};  // the range the worker was executing
  std::uint64_t at{0};         // the announced case (valid if in_case)
  bool in_case{false};
  bool by_signal{false};
  int code{0};                 // signal number or exit status
};
struct Contained {
  std::vector<Piece> pieces;   // sorted by lo
  std::vector<Crash> crashes;  // sorted by (at, lo)
  bool lost{false};            // some cases could not be evaluated at all
};

std::string crash_cause(const Crash& c) {
  return c.by_signal ? "signal " + std::to_string(c.code) : "exit status " + std::to_string(c.code);
}

Contained run_contained(int workers, std::uint64_t ncases, std::uint64_t nslices, const RangeFn& fn) {
  Contained out;
  if (ncases == 0) return out;
  if (g_board == nullptr) board_setup();
  if (nslices < 1) nslices = 1;
  if (nslices > ncases) nslices = ncases;
  if (workers < 1) workers = 1;
  if (static_cast<std::size_t>(workers) > BOARD_SLOTS) workers = static_cast<int>(BOARD_SLOTS);

  struct Slice {
    std::deque<std::pair<std::uint64_t, std::uint64_t>> todo;
    unsigned crashes{0};
    bool running{false};
  };
  std::vector<Slice> slices(static_cast<std::size_t>(nslices));
  const std::uint64_t chunk = (ncases + nslices - 1) / nslices;
  for (std::uint64_t s = 0; s < nslices; ++s) {
    const std::uint64_t lo = std::min(ncases, s * chunk), hi = std::min(ncases, lo + chunk);
    if (lo < hi) slices[static_cast<std::size_t>(s)].todo.emplace_back(lo, hi);
  }
  struct Active {
    pid_t pid;
    int fd;
    std::size_t slice;
    std::size_t slot;
    std::uint64_t lo, hi;
    std::string buf;
  };
  std::vector<Active> active;
  std::vector<bool> slot_used(static_cast<std::size_t>(workers), false);
  std::size_t next_slice = 0;

  auto start_some = [&] {
    while (active.size() < static_cast<std::size_t>(workers)) {
      std::size_t pick = slices.size();
      for (std::size_t k = 0; k < slices.size(); ++k) {
        const std::size_t s = (next_slice + k) % slices.size();
        if (!slices[s].running && !slices[s].todo.empty()) { pick = s; break; }
      }
      if (pick == slices.size()) return;
      next_slice = pick + 1;
      Slice& sl = slices[pick];
      const auto range = sl.todo.front();
      sl.todo.pop_front();
      sl.running = true;
      std::size_t slot = 0;
      while (slot_used[slot]) ++slot;
      slot_used[slot] = true;
      volatile std::uint64_t* prog = g_board + slot * BOARD_STRIDE;
      *prog = PROGRESS_NONE;
      int fds[2];
      if (pipe(fds) != 0) die("pipe failed");
      const pid_t pid = fork();
      if (pid < 0) die("fork failed");
      if (pid == 0) {
        close(fds[0]);
        for (const auto& a : active) close(a.fd);
        Acc acc;
        fn(range.first, range.second, acc, prog);
        Writer w;
        put_acc(w, acc);
        std::size_t done = 0;
        while (done < w.b.size()) {
          const ssize_t n = write(fds[1], w.b.data() + done, w.b.size() - done);
          if (n < 0) { if (errno == EINTR) continue; _exit(3); }
          done += static_cast<std::size_t>(n);
        }
        close(fds[1]);
        _exit(0);
      }
      close(fds[1]);
      active.push_back(Active{pid, fds[0], pick, slot, range.first, range.second, {}});
    }
  };

  auto finish = [&](std::size_t idx) {
    Active a = std::move(active[idx]);
    active.erase(active.begin() + static_cast<std::ptrdiff_t>(idx));
    close(a.fd);
    int status = 0;
    while (waitpid(a.pid, &status, 0) < 0) {
      if (errno != EINTR) die("waitpid failed");
    }
    const std::uint64_t at = g_board[a.slot * BOARD_STRIDE];
    slot_used[a.slot] = false;
    Slice& sl = slices[a.slice];
    sl.running = false;
    if (WIFEXITED(status) && WEXITSTATUS(status) == 2) die("a worker reported an internal error");
    Piece pc;
    pc.lo = a.lo;
    pc.hi = a.hi;
    if (WIFEXITED(status) && WEXITSTATUS(status) == 0 && get_acc(a.buf, pc.acc)) {
      out.pieces.push_back(std::move(pc));
      return;
    }
    Crash c;
    c.lo = a.lo;
    c.hi = a.hi;
    c.at = at;
    c.in_case = (at != PROGRESS_NONE && at >= a.lo && at < a.hi);
    c.by_signal = WIFSIGNALED(status);
    c.code = c.by_signal ? WTERMSIG(status) : (WIFEXITED(status) ? WEXITSTATUS(status) : -1);
    out.crashes.push_back(c);
    ++sl.crashes;
    if (!c.in_case) { out.lost = true; return; }  // cannot tell where: the range is lost
    if (sl.crashes > MAX_VIOL) {                  // give up on the rest of this slice
      out.lost = true;
      sl.todo.clear();
      if (a.lo < at) sl.todo.emplace_back(a.lo, at);  // the cases before it are still evaluated
      return;
    }
    if (at + 1 < a.hi) sl.todo.emplace_front(at + 1, a.hi);
    if (a.lo < at) sl.todo.emplace_front(a.lo, at);
  };

  for (;;) {
    start_some();
    if (active.empty()) break;
    std::vector<pollfd> pf(active.size());
    for (std::size_t i = 0; i < active.size(); ++i) {
      pf[i].fd = active[i].fd;
      pf[i].events = POLLIN;
      pf[i].revents = 0;
    }
    if (poll(pf.data(), pf.size(), -1) < 0) {
      if (errno == EINTR) continue;
      die("poll failed");
    }
    for (std::size_t i = active.size(); i-- > 0;) {
      if (pf[i].revents == 0) continue;
      char tmp[65536];
      const ssize_t n = read(active[i].fd, tmp, sizeof tmp);
      if (n > 0) { active[i].buf.append(tmp, static_cast<std::size_t>(n)); continue; }
      if (n < 0 && (errno == EINTR || errno == EAGAIN)) continue;
      finish(i);
    }
  }
  std::sort(out.pieces.begin(), out.pieces.end(), [](const Piece& x, const Piece& y) { return x.lo < y.lo; });
  std::sort(out.crashes.begin(), out.crashes.end(), [](const Crash& x, const Crash& y) {
    return x.at != y.at ? x.at < y.at : x.lo < y.lo;
  });
  return out;
}

void merge_into(Part& p, std::vector<Piece>& pieces) {
  for (auto& pc : pieces) {
    Acc& a = pc.acc;
    p.checks += a.checks;
    p.classes += a.classes;
    p.transitions += a.transitions;
    p.vtotal += a.vtotal;
    for (auto& v : a.viols) p.viols.push_back(std::move(v));
    if (p.sample.empty() && !a.sample.empty()) p.sample = a.sample;
  }
  std::stable_sort(p.viols.begin(), p.viols.end(), [](const Viol& x, const Viol& y) {
    return x.k1 != y.k1 ? x.k1 < y.k1 : x.k2 < y.k2;
  });
  if (p.viols.size() > MAX_VIOL) p.viols.resize(MAX_VIOL);
}

// ---------------------------------------------------------------------------
// Calling the code under test
// ---------------------------------------------------------------------------

inline std::span<const std::byte> as_span(const char* p, std::size_t n) {
  return {reinterpret_cast<const std::byte*>(p), n};
}

// One encoder call for one component. `use_sv` selects the string_view
// overload of encode_text instead of the span overload.
inline void lib_encode(unodb::key_encoder& e, const Val& v, std::uint64_t& calls,
                       bool use_sv = false) {
  ++calls;
  switch (v.k) {
    case K_I8:  e.encode(from_bits<std::int8_t>(static_cast<std::uint8_t>(v.bits))); return;
    case K_U8:  e.encode(static_cast<std::uint8_t>(v.bits)); return;
    case K_I16: e.encode(from_bits<std::int16_t>(static_cast<std::uint16_t>(v.bits))); return;
    case K_U16: e.encode(static_cast<std::uint16_t>(v.bits)); return;
    case K_I32: e.encode(from_bits<std::int32_t>(static_cast<std::uint32_t>(v.bits))); return;
    case K_U32: e.encode(static_cast<std::uint32_t>(v.bits)); return;
    case K_I64: e.encode(from_bits<std::int64_t>(v.bits)); return;
    case K_U64: e.encode(static_cast<std::uint64_t>(v.bits)); return;
    case K_F32: e.encode(from_bits<float>(static_cast<std::uint32_t>(v.bits))); return;
    case K_F64: e.encode(from_bits<double>(v.bits)); return;
    case K_TEXT:
      if (use_sv) e.encode_text(std::string_view(v.text.data(), v.text.size()));
      else e.encode_text(as_span(v.text.data(), v.text.size()));
      return;
    default: break;
  }
  die("lib_encode: bad kind");
}

inline std::string key_bytes(const unodb::key_encoder& e) {
  const auto kv = e.get_key_view();
  return std::string(reinterpret_cast<const char*>(kv.data()), kv.size());
}

std::string encode_fresh(const Tuple& t, std::uint64_t& calls, bool use_sv = false) {
  unodb::key_encoder e;
  for (const auto& v : t) lib_encode(e, v, calls, use_sv);
  return key_bytes(e);
}

// One decoder call for a numeric component; returns the raw bits.
inline std::uint64_t lib_decode(unodb::key_decoder& d, Kind k, std::uint64_t& calls) {
  ++calls;
  switch (k) {
    case K_I8:  { std::int8_t v;   d.decode(v); return to_bits(v); }
    case K_U8:  { std::uint8_t v;  d.decode(v); return v; }
    case K_I16: { std::int16_t v;  d.decode(v); return to_bits(v); }
    case K_U16: { std::uint16_t v; d.decode(v); return v; }
    case K_I32: { std::int32_t v;  d.decode(v); return to_bits(v); }
    case K_U32: { std::uint32_t v; d.decode(v); return v; }
    case K_I64: { std::int64_t v;  d.decode(v); return to_bits(v); }
    case K_U64: { std::uint64_t v; d.decode(v); return v; }
    case K_F32: { float v;         d.decode(v); return to_bits(v); }
    case K_F64: { double v;        d.decode(v); return to_bits(v); }
    default: break;
  }
  die("lib_decode: bad kind");
}

// ---------------------------------------------------------------------------
// Generic single-case evaluators. Every enumerated case that fails on a fast
// path is re-evaluated here to build the violation record, and --replay-arg
// evaluates exactly these functions.
// ---------------------------------------------------------------------------

struct Gen {
  std::vector<Viol> out;
  std::uint64_t calls{0};
  std::string sample;
  bool want_sample{false};
  void add(std::string what, std::string sig, std::string replay, std::string detail) {
    Viol v;
    v.what = std::move(what);
    v.sig = std::move(sig);
    v.replay = std::move(replay);
    v.detail = std::move(detail);
    out.push_back(std::move(v));
  }
};

// ---- C11: order of one pair ----
void gen_check_order(const Tuple& a, const Tuple& b, Gen& g) {
  if (!same_schema(a, b)) die("order: schema mismatch");
  const std::string ea = encode_fresh(a, g.calls);
  const std::string eb = encode_fresh(b, g.calls);
  const int r = ref_cmp_tuple(a, b);
  const int c1 = lib_compare(uc(ea), ea.size(), uc(eb), eb.size());
  const int c2 = indep_compare(uc(ea), ea.size(), uc(eb), eb.size());
  const std::string dom = schema_label(a);
  const std::string replay = "order:" + tuple_str(a) + ":" + tuple_str(b);
  const std::string detail = JObj{}
      .str("a", tuple_str(a)).str("a_value", tuple_human(a)).str("enc_a", hex_of(ea))
      .str("b", tuple_str(b)).str("b_value", tuple_human(b)).str("enc_b", hex_of(eb))
      .inum("ref_cmp", r).inum("lib_compare", c1).inum("indep_compare", c2).done();
  if (g.want_sample) g.sample = detail;
  if (c1 != c2)
    g.add("unodb::detail::compare and the independent bytewise compare disagree on the encodings of " +
              tuple_human(a) + " and " + tuple_human(b),
          "C11/" + dom + "/compare-disagree", replay, detail);
  if (c1 != r || c2 != r) {
    if (r == 0)
      g.add("reference-equal values " + tuple_human(a) + " and " + tuple_human(b) +
                " have different encodings",
            "C11/" + dom + "/equal-class", replay, detail);
    else
      g.add("encodings of " + tuple_human(a) + " and " + tuple_human(b) + " compare " +
                std::to_string(c1) + " but the values compare " + std::to_string(r),
            "C11/" + dom + "/order", replay, detail);
  }
}

// ---- C12: round trip of one numeric value ----
std::uint64_t g_canon_nan[K_COUNT] = {};  // decode(encode(quiet_NaN)) per float kind

struct ReusedEncoders {
  unodb::key_encoder plain;  // never grew beyond the internal buffer
  unodb::key_encoder grown;  // switched to a heap buffer before being reused
  std::uint64_t setup_calls{0};
  ReusedEncoders() {
    const std::string big(600, 'g');
    grown.encode_text(as_span(big.data(), big.size()));
    grown.reset();
    setup_calls = 1;
  }
};

inline bool is_quiet_nan_bits(Kind k, std::uint64_t bits) {
  if (!is_nan_bits(k, bits)) return false;
  return k == K_F32 ? ((bits >> 22) & 1U) != 0 : ((bits >> 51) & 1U) != 0;
}

void gen_check_roundtrip(const Val& v, ReusedEncoders& re, Gen& g) {
  if (v.k == K_TEXT) die("rt: text has no decoder");
  const std::string dom = kind_name[v.k];
  const std::string replay = "rt:" + val_str(v);
  const std::size_t want = kind_size[v.k];
  std::string a;
  {
    unodb::key_encoder e;
    lib_encode(e, v, g.calls);
    a = key_bytes(e);
  }
  std::uint64_t y = 0;
  bool decoded = false;
  if (a.size() >= want) {
    unodb::key_decoder d{unodb::key_view(reinterpret_cast<const std::byte*>(a.data()), a.size())};
    y = lib_decode(d, v.k, g.calls);
    decoded = true;
  }
  // reused after reset(), with unrelated content encoded before the reset
  re.plain.reset();
  re.plain.encode(std::uint64_t{0xA5A5A5A5A5A5A5A5ULL});
  re.plain.reset();
  lib_encode(re.plain, v, g.calls);
  const std::string b = key_bytes(re.plain);
  re.grown.reset();
  re.grown.encode(std::uint32_t{0x5A5A5A5AU});
  re.grown.reset();
  lib_encode(re.grown, v, g.calls);
  const std::string c = key_bytes(re.grown);
  g.calls += 2;

  char ybuf[32];
  std::snprintf(ybuf, sizeof ybuf, "0x%" PRIx64, y);
  const std::string detail = JObj{}
      .str("value", val_str(v)).str("human", val_human(v)).str("enc", hex_of(a))
      .num("enc_size", a.size()).str("decoded_bits", decoded ? ybuf : "n/a")
      .str("enc_reused", hex_of(b)).str("enc_reused_grown", hex_of(c)).done();
  if (g.want_sample) g.sample = detail;

  if (a.size() != want)
    g.add("encoding of " + dom + " " + val_human(v) + " occupies " + std::to_string(a.size()) +
              " bytes, not " + std::to_string(want),
          "C12/" + dom + "/size", replay, detail);
  if (decoded) {
    if (is_nan_bits(v.k, v.bits)) {
      if (!is_quiet_nan_bits(v.k, y) || y != g_canon_nan[v.k])
        g.add("NaN " + val_str(v) + " does not decode to the canonical quiet NaN (got " + ybuf + ")",
              "C12/" + dom + "/nan", replay, detail);
    } else if (y != v.bits) {
      g.add("decode(encode(x)) differs from x for " + dom + " " + val_str(v) + " (got " + ybuf + ")",
            "C12/" + dom + "/roundtrip", replay, detail);
    }
  }
  if (b != a)
    g.add("encoder reused after reset() yields different bytes than a fresh one for " + val_str(v),
          "C12/" + dom + "/reset", replay, detail);
  if (c != a)
    g.add("previously grown encoder reused after reset() yields different bytes than a fresh one for " +
              val_str(v),
          "C12/" + dom + "/reset-grown", replay, detail);
}

// ---- C12: one component sequence (buffer growth, reuse, in-order decode) ----
void gen_check_seq(const Tuple& t, unodb::key_encoder& reused, Gen& g) {
  const std::string replay = "seq:" + tuple_str(t);
  std::string concat;
  std::vector<std::size_t> sizes;
  sizes.reserve(t.size());
  for (const auto& v : t) {
    unodb::key_encoder e;
    lib_encode(e, v, g.calls);
    const auto kv = e.get_key_view();
    concat.append(reinterpret_cast<const char*>(kv.data()), kv.size());
    sizes.push_back(kv.size());
  }
  const std::string a = encode_fresh(t, g.calls);
  reused.reset();
  for (const auto& v : t) lib_encode(reused, v, g.calls);
  const std::string b = key_bytes(reused);

  auto first_diff = [](const std::string& x, const std::string& y) {
    std::size_t i = 0;
    while (i < x.size() && i < y.size() && x[i] == y[i]) ++i;
    return i;
  };
  JObj dj;
  dj.num("components", t.size()).num("concat_size", concat.size())
      .num("fresh_size", a.size()).num("reused_size", b.size())
      .str("schema", schema_label(t).substr(0, 200))
      .str("enc", hex_of(a));
  if (g.want_sample) g.sample = dj.done();

  if (a != concat) {
    JObj d2 = dj;
    d2.num("first_difference_at", first_diff(a, concat));
    g.add("a fresh encoder fed " + std::to_string(t.size()) + " components (" +
              std::to_string(concat.size()) +
              " bytes) yields bytes different from the concatenation of the individually encoded components",
          concat.size() > unodb::detail::INITIAL_BUFFER_CAPACITY ? "C12/seq/grow" : "C12/seq/concat",
          replay, d2.done());
  }
  if (b != concat) {
    JObj d2 = dj;
    d2.num("first_difference_at", first_diff(b, concat));
    g.add("an encoder reused after reset() fed " + std::to_string(t.size()) +
              " components yields bytes different from the concatenation of the individually encoded components",
          "C12/seq/reset", replay, d2.done());
  }
  if (a == concat) {
    const unodb::key_view kv(reinterpret_cast<const std::byte*>(a.data()), a.size());
    std::size_t off = 0;
    unodb::key_decoder* dec = nullptr;
    alignas(unodb::key_decoder) unsigned char store[sizeof(unodb::key_decoder)];
    auto restart = [&](std::size_t at) {
      dec = new (store) unodb::key_decoder(kv.subspan(at));  // trivially destructible
    };
    static_assert(std::is_trivially_destructible_v<unodb::key_decoder>);
    restart(0);
    for (std::size_t i = 0; i < t.size(); ++i) {
      const Val& v = t[i];
      if (v.k == K_TEXT) {  // no text decoder exists: step over the field
        off += sizes[i];
        restart(off);
        continue;
      }
      if (off + kind_size[v.k] > a.size()) break;  // size violation reported by rt
      const std::uint64_t y = lib_decode(*dec, v.k, g.calls);
      off += kind_size[v.k];
      const bool ok = is_nan_bits(v.k, v.bits)
                          ? (is_quiet_nan_bits(v.k, y) && y == g_canon_nan[v.k])
                          : (y == v.bits);
      if (!ok) {
        char ybuf[32];
        std::snprintf(ybuf, sizeof ybuf, "0x%" PRIx64, y);
        JObj d2 = dj;
        d2.num("component_index", i).str("component", val_str(v)).str("decoded_bits", ybuf);
        g.add("decoder returned " + std::string(ybuf) + " for component " + std::to_string(i) +
                  " (" + val_str(v) + ") of a " + std::to_string(t.size()) + "-component key",
              "C12/seq/decode", replay, d2.done());
        break;
      }
    }
  }
}

// ---- C15: byte-equality / prefix-freedom of one pair ----
inline bool proper_prefix(const std::string& x, const std::string& y) {
  return x.size() < y.size() && std::memcmp(x.data(), y.data(), x.size()) == 0;
}
void gen_check_prefix(const Tuple& a, const Tuple& b, Gen& g) {
  if (!same_schema(a, b)) die("pf: schema mismatch");
  const std::string ea = encode_fresh(a, g.calls);
  const std::string eb = encode_fresh(b, g.calls);
  const bool eq_ref = norm_equal_tuple(a, b);
  const bool eq_enc = (ea == eb);
  const bool pre = proper_prefix(ea, eb) || proper_prefix(eb, ea);
  const std::string dom = schema_label(a);
  const std::string replay = "pf:" + tuple_str(a) + ":" + tuple_str(b);
  const std::string detail = JObj{}
      .str("a", tuple_str(a)).str("enc_a", hex_of(ea)).num("enc_a_size", ea.size())
      .str("b", tuple_str(b)).str("enc_b", hex_of(eb)).num("enc_b_size", eb.size())
      .boolean("equal_after_normalisation", eq_ref).boolean("encodings_equal", eq_enc)
      .boolean("one_is_proper_prefix", pre).done();
  if (g.want_sample) g.sample = detail;
  if (eq_ref && !eq_enc)
    g.add("keys with equal components after normalisation are not byte-equal: " + tuple_str(a) +
              " vs " + tuple_str(b),
          "C15/" + dom + "/equal-components-differ", replay, detail);
  if (!eq_ref && eq_enc)
    g.add("keys with different components are byte-equal: " + tuple_str(a) + " vs " + tuple_str(b),
          "C15/" + dom + "/collision", replay, detail);
  if (!eq_ref && pre)
    g.add("one key is a proper prefix of the other: " + tuple_str(a) + " vs " + tuple_str(b),
          "C15/" + dom + "/prefix", replay, detail);
}

// ---- C15: output size bound and agreement of the two encode_text overloads ----
void gen_check_outsize(const Tuple& t, Gen& g) {
  const std::string e1 = encode_fresh(t, g.calls, false);
  const std::string e2 = encode_fresh(t, g.calls, true);
  std::size_t bound = 0;
  for (const auto& v : t) bound += (v.k == K_TEXT) ? MAXLEN + TEXT_TERMINATOR : kind_size[v.k];
  const std::string dom = schema_label(t);
  const std::string replay = "osz:" + tuple_str(t);
  const std::string detail = JObj{}
      .str("key", tuple_str(t)).num("enc_size", e1.size()).num("bound", bound)
      .str("enc_span_overload", hex_of(e1)).str("enc_string_view_overload", hex_of(e2)).done();
  if (g.want_sample) g.sample = detail;
  if (e1.size() > bound || e2.size() > bound)
    g.add("encoded key of " + std::to_string(e1.size()) + " bytes exceeds the bound of " +
              std::to_string(bound) + " bytes (maxlen plus three-byte terminator per text component)",
          "C15/" + dom + "/output-size", replay, detail);
  if (e1 != e2)
    g.add("the span and string_view overloads of encode_text produce different keys for equal components",
          "C15/" + dom + "/overload-mismatch", replay, detail);
}

// ---- C15: encode_text must not read input beyond maxlen bytes ----
struct GuardArena {
  unsigned char* base{nullptr};
  unsigned char* boundary{nullptr};  // first byte of the PROT_NONE region
  std::size_t guard_len{0};          // length of the inaccessible region
  std::size_t total{0};
};
// The inaccessible region spans the largest nominal length used, so that a
// read at any offset >= maxlen of the nominal range faults inside it.
constexpr std::uint64_t GUARD_SPAN = std::uint64_t{1} << 31;
GuardArena g_arena;
sigjmp_buf g_jb;
volatile std::sig_atomic_t g_guard_active = 0;
volatile std::uintptr_t g_fault_addr = 0;

void segv_handler(int, siginfo_t* si, void*) {
  const auto addr = reinterpret_cast<std::uintptr_t>(si->si_addr);
  const auto lo = reinterpret_cast<std::uintptr_t>(g_arena.boundary);
  if (g_guard_active && addr >= lo && addr < lo + g_arena.guard_len) {
    g_fault_addr = addr;
    siglongjmp(g_jb, 1);
  }
  std::signal(SIGSEGV, SIG_DFL);  // not ours: let it crash (infrastructure error)
}

void guard_setup() {
  if (g_arena.base != nullptr) return;
  const auto page = static_cast<std::size_t>(sysconf(_SC_PAGESIZE));
  const std::size_t acc_pages = (MAXLEN + page - 1) / page + 1;
  const std::size_t guard_len = static_cast<std::size_t>(GUARD_SPAN) + page;
  const std::size_t total = acc_pages * page + guard_len;
  void* p = mmap(nullptr, total, PROT_NONE, MAP_PRIVATE | MAP_ANONYMOUS | MAP_NORESERVE, -1, 0);
  if (p == MAP_FAILED) die("mmap failed");
  g_arena.base = static_cast<unsigned char*>(p);
  g_arena.guard_len = guard_len;
  g_arena.total = total;
  g_arena.boundary = g_arena.base + acc_pages * page;
  if (mprotect(g_arena.base, acc_pages * page, PROT_READ | PROT_WRITE) != 0) die("mprotect failed");
  struct sigaction sa;
  std::memset(&sa, 0, sizeof sa);
  sa.sa_sigaction = segv_handler;
  sa.sa_flags = SA_SIGINFO | SA_NODEFER;
  sigemptyset(&sa.sa_mask);
  if (sigaction(SIGSEGV, &sa, nullptr) != 0) die("sigaction failed");
}

// `content` has exactly MAXLEN bytes; it is placed so that it ends at the page
// boundary (everything after it is PROT_NONE) and handed to encode_text with nominal length `nominal` > MAXLEN.
// Must run on the main thread.
void gen_check_guard(const std::string& content, std::uint64_t nominal, bool use_sv, Gen& g) {
  if (content.size() != MAXLEN) die("guard: content must have exactly maxlen bytes");
  if (nominal <= MAXLEN) die("guard: nominal length must exceed maxlen");
  if (nominal > GUARD_SPAN) die("guard: nominal length too large");
  guard_setup();
  unsigned char* const at = g_arena.boundary - MAXLEN;
  std::memcpy(at, content.data(), MAXLEN);
  const std::string replay = "guard:" + rle_of(content) + ":" + std::to_string(nominal) + ":" +
                             (use_sv ? "sv" : "span");
  // baseline: same bytes from ordinary memory with their exact length
  std::string base;
  {
    unodb::key_encoder e;
    ++g.calls;
    e.encode_text(as_span(content.data(), content.size()));
    base = key_bytes(e);
  }
  // Heap-allocated and leaked on a fault: no destructor runs across siglongjmp.
  auto* volatile enc = new unodb::key_encoder();
  volatile bool faulted = false;
  std::string got;
  g_fault_addr = 0;
  ++g.calls;
  if (sigsetjmp(g_jb, 1) == 0) {
    g_guard_active = 1;
    if (use_sv)
      enc->encode_text(std::string_view(reinterpret_cast<const char*>(at),
                                        static_cast<std::size_t>(nominal)));
    else
      enc->encode_text(std::span<const std::byte>(reinterpret_cast<const std::byte*>(at),
                                                  static_cast<std::size_t>(nominal)));
    g_guard_active = 0;
    got = key_bytes(*enc);
    delete enc;
  } else {
    g_guard_active = 0;
    faulted = true;
  }
  JObj dj;
  dj.str("content", rle_of(content)).num("nominal_length", nominal)
      .str("overload", use_sv ? "string_view" : "span").boolean("faulted", faulted);
  if (faulted)
    dj.num("fault_offset_in_input",
           static_cast<std::uint64_t>(g_fault_addr - reinterpret_cast<std::uintptr_t>(at)));
  else
    dj.num("enc_size", got.size()).str("enc", hex_of(got));
  const std::string detail = dj.done();
  if (g.want_sample) g.sample = detail;
  if (faulted) {
    g.add("encode_text read input byte at offset " +
              std::to_string(static_cast<std::uint64_t>(
                  g_fault_addr - reinterpret_cast<std::uintptr_t>(at))) +
              " (at or beyond maxlen) of a text with nominal length " + std::to_string(nominal),
          "C15/text/overread", replay, detail);
    return;
  }
  if (got.size() > MAXLEN + TEXT_TERMINATOR)
    g.add("text component encoded to " + std::to_string(got.size()) + " bytes, more than maxlen+3",
          "C15/text/output-size", replay, detail);
  if (got != base)
    g.add("text of nominal length " + std::to_string(nominal) +
              " is not byte-equal to the encoding of its first maxlen bytes",
          "C15/text/equal-components-differ", replay, detail);
}

// ---------------------------------------------------------------------------
// Numeric domains
// ---------------------------------------------------------------------------

const std::uint8_t ALPHA[6] = {0x00, 0x01, 0x7F, 0x80, 0xFE, 0xFF};
// Thorough tier, 64-bit types only: a superset alphabet (8^8 = 16,777,216 values).
const std::uint8_t ALPHA_WIDE[8] = {0x00, 0x01, 0x02, 0x7F, 0x80, 0x81, 0xFE, 0xFF};

// Structured bit patterns of width U: the 6^n byte-alphabet domain, all values
// with <= 2 bits set or <= 2 bits cleared, +-1 around every power of two.
template <class U>
void add_structured(std::vector<U>& v, bool wide) {
  constexpr int W = static_cast<int>(sizeof(U) * 8);
  constexpr int NB = static_cast<int>(sizeof(U));
  const std::uint8_t* const alpha = wide ? ALPHA_WIDE : ALPHA;
  const std::uint64_t letters = wide ? 8 : 6;
  std::uint64_t total = 1;
  for (int i = 0; i < NB; ++i) total *= letters;
  v.reserve(v.size() + total + 4096);
  for (std::uint64_t idx = 0; idx < total; ++idx) {
    std::uint64_t x = idx;
    U val = 0;
    for (int i = 0; i < NB; ++i) {
      val = static_cast<U>(static_cast<U>(val << 8) | alpha[x % letters]);
      x /= letters;
    }
    v.push_back(val);
  }
  const U ones = static_cast<U>(~U{0});
  v.push_back(0);
  v.push_back(ones);
  for (int i = 0; i < W; ++i) {
    const U bi = static_cast<U>(U{1} << i);
    v.push_back(bi);
    v.push_back(static_cast<U>(ones ^ bi));
    v.push_back(static_cast<U>(bi - 1));
    v.push_back(static_cast<U>(bi + 1));
    for (int j = i + 1; j < W; ++j) {
      const U bj = static_cast<U>(U{1} << j);
      v.push_back(static_cast<U>(bi | bj));
      v.push_back(static_cast<U>(ones ^ (bi | bj)));
    }
  }
}

// All exponents x both signs x mantissa skeleton (top 4 and bottom 4 mantissa
// bits free, the middle all zero or all one).
void add_float_skeleton(std::vector<std::uint32_t>& v) {
  for (std::uint32_t s = 0; s < 2; ++s)
    for (std::uint32_t e = 0; e < 256; ++e)
      for (std::uint32_t top = 0; top < 16; ++top)
        for (std::uint32_t mid = 0; mid < 2; ++mid)
          for (std::uint32_t bot = 0; bot < 16; ++bot)
            v.push_back((s << 31) | (e << 23) | (top << 19) | (mid ? (0x7FFFU << 4) : 0U) | bot);
}
void add_double_skeleton(std::vector<std::uint64_t>& v) {
  for (std::uint64_t s = 0; s < 2; ++s)
    for (std::uint64_t e = 0; e < 2048; ++e)
      for (std::uint64_t top = 0; top < 16; ++top)
        for (std::uint64_t mid = 0; mid < 2; ++mid)
          for (std::uint64_t bot = 0; bot < 16; ++bot)
            v.push_back((s << 63) | (e << 52) | (top << 48) |
                        (mid ? (0xFFFFFFFFFFFULL << 4) : 0ULL) | bot);
}

// Sort bit patterns in the reference order of T (ties, i.e. NaNs, by bit
// pattern), remove duplicates.
template <class T>
void sort_ref_unique(std::vector<typename Traits<T>::U>& v) {
  using U = typename Traits<T>::U;
  std::sort(v.begin(), v.end(), [](U a, U b) {
    const int r = ref_cmp_num(from_bits<T>(a), from_bits<T>(b));
    return r != 0 ? r < 0 : a < b;
  });
  v.erase(std::unique(v.begin(), v.end()), v.end());
}

template <class T>
std::vector<typename Traits<T>::U> structured_domain(bool wide) {
  using U = typename Traits<T>::U;
  std::vector<U> v;
  add_structured<U>(v, wide && sizeof(U) == 8);
  if constexpr (std::is_same_v<T, float>) add_float_skeleton(v);
  if constexpr (std::is_same_v<T, double>) add_double_skeleton(v);
  sort_ref_unique<T>(v);
  return v;
}

// Enumeration of a complete type in reference order: rank -> bit pattern.
// (Only an enumeration order: every adjacent pair is still judged by
// ref_cmp_num, and a descending step is an internal error.)
template <class T>
inline typename Traits<T>::U full_rank_to_bits(std::uint64_t rank) noexcept {
  using U = typename Traits<T>::U;
  if constexpr (std::is_same_v<T, float>) {
    // -inf, negatives by decreasing magnitude, -0, +0, positives, +inf, NaNs
    constexpr std::uint64_t NEG = 0x7F800001ULL;  // 0xFF800000 down to 0x80000000
    if (rank < NEG) return static_cast<U>(0xFF800000ULL - rank);
    rank -= NEG;
    if (rank < NEG) return static_cast<U>(rank);  // 0x00000000 .. 0x7F800000
    rank -= NEG;
    constexpr std::uint64_t NANS = 0x7FFFFFULL;
    if (rank < NANS) return static_cast<U>(0x7F800001ULL + rank);
    rank -= NANS;
    return static_cast<U>(0xFF800001ULL + rank);
  } else if constexpr (std::is_signed_v<T>) {
    const auto val = static_cast<T>(static_cast<std::int64_t>(rank) +
                                    static_cast<std::int64_t>(std::numeric_limits<T>::min()));
    return to_bits(val);
  } else {
    return static_cast<U>(rank);
  }
}

// Number of values of a complete type (only used for types of up to 32 bits).
template <class T>
constexpr std::uint64_t full_count() noexcept {
  if constexpr (sizeof(T) >= 8) return 0;
  else return std::uint64_t{1} << (8 * sizeof(T));
}

struct Opt {
  std::string tier, out, only, replay, property;
  int threads{16};
  bool has_replay{false};
};

bool want(const Opt& o, const std::string& name) {
  if (o.only.empty() || o.only == name) return true;
  return name.rfind(o.only + "/", 0) == 0;
}

inline std::uint64_t clamp_slices(std::uint64_t work, std::uint64_t per_slice) {
  const std::uint64_t s = work / per_slice;
  return s < 1 ? 1 : (s > 64 ? 64 : s);
}

// Domain label used in crash signatures: the part name up to the first '/'.
std::string dom_of(const std::string& part_name) { return part_name.substr(0, part_name.find('/')); }

// ---- crashes of the code under test -> violations -------------------------
void eval_replay(const std::string& property, const std::string& replay, Gen& g);  // below
std::string replay_dom(const std::string& replay);                                  // below

struct Single {
  bool crashed{false};
  Crash crash;
  Acc acc;
};
// Evaluate one replayable case in a fresh worker process.
Single run_single(const std::string& property, const std::string& replay) {
  const RangeFn fn = [&](std::uint64_t, std::uint64_t, Acc& acc, volatile std::uint64_t* prog) {
    *prog = 0;
    Gen g;
    g.want_sample = true;
    eval_replay(property, replay, g);
    acc.checks = 1;
    acc.transitions = g.calls;
    acc.vtotal = g.out.empty() ? 0 : 1;
    acc.sample = g.sample;
    for (auto& v : g.out)
      if (acc.want_more()) acc.viols.push_back(std::move(v));
  };
  Contained c = run_contained(1, 1, 1, fn);
  Single s;
  if (!c.crashes.empty() || c.pieces.empty()) {
    s.crashed = true;
    if (!c.crashes.empty()) s.crash = c.crashes[0];
  } else {
    s.acc = std::move(c.pieces[0].acc);
  }
  return s;
}

std::string shorten(const std::string& s, std::size_t n = 160) {
  return s.size() <= n ? s : s.substr(0, n) + "...";
}

Viol crash_viol(const std::string& prop, const std::string& dom, const std::string& replay,
                const std::string& cause, bool reproduced_alone, std::uint64_t k1) {
  Viol v;
  v.k1 = k1;
  v.what = "the code under test crashed (" + cause + ") while evaluating case " + shorten(replay);
  v.sig = prop + "/" + dom + "/crash";
  v.replay = replay;
  v.detail = JObj{}.str("cause", cause).boolean("crashed_when_run_alone", reproduced_alone).done();
  return v;
}

// Account for the crashes of a contained run of `part`. `case_replay(c)` gives
// the replay argument of case c. Each crashing case is re-evaluated alone in a
// fresh worker: if it crashes again it is a `<prop>/<dom>/crash` violation whose
// replay re-executes exactly that case; if it completes, its ordinary findings
// (e.g. garbage bytes) are taken instead.
void account_crashes(const std::string& prop, const std::string& fallback_dom, Part& part,
                     const Contained& res,
                     const std::function<std::string(std::uint64_t)>& case_replay) {
  if (res.lost) part.exhaustive = false;
  (void)fallback_dom;
  std::size_t confirmed = 0;
  for (const Crash& c : res.crashes) {
    ++part.crashes;
    ++part.vtotal;
    if (!c.in_case) {
      part.exhaustive = false;
      const std::string rp = case_replay(c.lo);
      Viol v = crash_viol(prop, replay_dom(rp), rp, crash_cause(c), false, c.lo);
      v.what = "a worker died (" + crash_cause(c) + ") outside any case while executing cases " +
               std::to_string(c.lo) + ".." + std::to_string(c.hi) + " of " + part.name;
      part.viols.push_back(std::move(v));
      continue;
    }
    ++part.checks;
    const std::string replay = case_replay(c.at);
    if (confirmed >= MAX_VIOL) continue;  // counted; not among the first reported anyway
    ++confirmed;
    const std::string dom = replay_dom(replay);  // same label a replay of this case will use
    Single s = run_single(prop, replay);
    if (s.crashed) {
      part.viols.push_back(crash_viol(prop, dom, replay, crash_cause(s.crash), true, c.at));
    } else if (!s.acc.viols.empty()) {
      part.transitions += s.acc.transitions;
      for (auto& v : s.acc.viols) { v.k1 = c.at; part.viols.push_back(std::move(v)); }
    } else {
      part.transitions += s.acc.transitions;
      part.viols.push_back(crash_viol(prop, dom, replay, crash_cause(c), false, c.at));
    }
  }
  // Reported order inside a part: up to MAX_VIOL/2 crash violations first (by
  // case), then the other violations by case, then any further crashes.
  auto is_crash = [](const Viol& v) {
    return v.sig.size() >= 6 && v.sig.compare(v.sig.size() - 6, 6, "/crash") == 0;
  };
  std::stable_sort(part.viols.begin(), part.viols.end(), [](const Viol& x, const Viol& y) {
    return x.k1 != y.k1 ? x.k1 < y.k1 : x.k2 < y.k2;
  });
  std::vector<Viol> first, rest, more;
  for (auto& v : part.viols) {
    if (!is_crash(v)) rest.push_back(std::move(v));
    else if (first.size() < MAX_VIOL / 2) first.push_back(std::move(v));
    else more.push_back(std::move(v));
  }
  part.viols = std::move(first);
  for (auto& v : rest) part.viols.push_back(std::move(v));
  for (auto& v : more) part.viols.push_back(std::move(v));
  if (part.viols.size() > MAX_VIOL) part.viols.resize(MAX_VIOL);
}

// Small copy of an encoding produced on a fast path.
struct SmallEnc {
  unsigned char b[16];
  std::size_t len{0};
};
template <class T>
inline void fast_enc(T x, SmallEnc& s) {
  unodb::key_encoder e;
  e.encode(x);
  const auto kv = e.get_key_view();
  s.len = kv.size();
  if (s.len <= sizeof s.b) std::memcpy(s.b, kv.data(), s.len);
}

void record_generic(Acc& acc, Gen& g, std::uint64_t k1, std::uint64_t k2, const std::string& prop,
                    const std::string& dom, const std::string& replay) {
  acc.transitions += g.calls;
  if (g.out.empty()) {
    // The fast path saw a failure that the generic evaluation does not show.
    g.add("a failure seen during enumeration did not reproduce when the case was re-evaluated",
          prop + "/" + dom + "/unstable", replay, "{}");
  }
  for (auto& v : g.out) {
    if (!acc.want_more()) break;
    v.k1 = k1;
    v.k2 = k2;
    acc.viols.push_back(std::move(v));
  }
}

// C11: walk N values given in reference order, check every adjacent pair.
// Case p = the pair (value p, value p+1).
template <class T, class F>
Part c11_walk(const Opt& o, const std::string& name, std::uint64_t N, F bits_at) {
  Part part;
  part.name = name;
  part.size = N;
  if (N < 2) return part;
  const std::uint64_t pairs = N - 1;
  const std::uint64_t sample_at = pairs / 2;
  constexpr Kind K = Traits<T>::kind;
  const RangeFn fn = [&](std::uint64_t lo, std::uint64_t hi, Acc& acc, volatile std::uint64_t* prog) {
    std::uint64_t checks = 0, classes = 0, calls = 0;
    *prog = lo;
    auto xb = bits_at(lo);
    T x = from_bits<T>(xb);
    SmallEnc ex, ey;
    fast_enc(x, ex);
    ++calls;
    for (std::uint64_t p = lo; p < hi; ++p) {
      *prog = p;
      const auto yb = bits_at(p + 1);
      const T y = from_bits<T>(yb);
      fast_enc(y, ey);
      ++calls;
      const int r = ref_cmp_num(x, y);
      if (r > 0) die("reference enumeration not ascending in " + name);
      bool ok = ex.len <= sizeof ex.b && ey.len <= sizeof ey.b;
      if (ok) {
        const int c1 = lib_compare(ex.b, ex.len, ey.b, ey.len);
        const int c2 = indep_compare(ex.b, ex.len, ey.b, ey.len);
        ok = (c1 == r) && (c2 == r);
      }
      ++checks;
      classes += (r < 0) ? 1U : 0U;
      if (!ok || p == sample_at) {
        if (!ok) ++acc.vtotal;
        if ((!ok && acc.want_more()) || p == sample_at) {
          Gen g;
          g.want_sample = (p == sample_at);
          const Tuple ta{make_num(K, xb)}, tb{make_num(K, yb)};
          gen_check_order(ta, tb, g);
          if (p == sample_at) acc.sample = g.sample;
          if (!ok)
            record_generic(acc, g, p, 0, "C11", kind_name[K],
                           "order:" + tuple_str(ta) + ":" + tuple_str(tb));
          else
            acc.transitions += g.calls;
        }
      }
      x = y;
      xb = yb;
      ex = ey;
    }
    acc.checks += checks;
    acc.classes += classes;
    acc.transitions += calls;
  };
  Contained res = run_contained(o.threads, pairs, clamp_slices(pairs, 16384), fn);
  merge_into(part, res.pieces);
  part.classes += 1;  // the class of the first element
  account_crashes("C11", kind_name[K], part, res, [&](std::uint64_t p) {
    return "order:" + val_str(make_num(K, bits_at(p))) + ":" + val_str(make_num(K, bits_at(p + 1)));
  });
  return part;
}

// C12: round trip every one of N values. Case p = value p.
template <class T, class F>
Part c12_walk(const Opt& o, const std::string& name, std::uint64_t N, F bits_at) {
  using U = typename Traits<T>::U;
  Part part;
  part.name = name;
  part.size = N;
  if (N == 0) return part;
  const std::uint64_t sample_at = N / 2;
  constexpr Kind K = Traits<T>::kind;
  const U canon = static_cast<U>(g_canon_nan[K]);
  const RangeFn fn = [&](std::uint64_t lo, std::uint64_t hi, Acc& acc, volatile std::uint64_t* prog) {
    *prog = lo;  // the reused encoders are set up as part of the first case
    ReusedEncoders re;
    std::uint64_t checks = 0, distinct = 0, calls = re.setup_calls;
    U prev = (lo > 0) ? bits_at(lo - 1) : U{0};
    for (std::uint64_t p = lo; p < hi; ++p) {
      *prog = p;
      const U xb = bits_at(p);
      const T x = from_bits<T>(xb);
      distinct += (p == 0 || xb != prev) ? 1U : 0U;  // differs from its predecessor in the walk
      prev = xb;
      bool ok = true;
      {
        unodb::key_encoder e;
        e.encode(x);
        const auto kv = e.get_key_view();
        ok = kv.size() == sizeof(T);
        if (ok) {
          unodb::key_decoder d{kv};
          T y;
          d.decode(y);
          const U yb = to_bits(y);
          if constexpr (std::is_floating_point_v<T>) {
            if (x != x) ok = (y != y) && is_quiet_nan_bits(K, yb) && yb == canon;
            else ok = (yb == xb);
          } else {
            ok = (yb == xb);
          }
          re.plain.reset();
          re.plain.encode(std::uint64_t{0xA5A5A5A5A5A5A5A5ULL});
          re.plain.reset();
          re.plain.encode(x);
          const auto k2 = re.plain.get_key_view();
          ok = ok && k2.size() == kv.size() && std::memcmp(k2.data(), kv.data(), kv.size()) == 0;
          re.grown.reset();
          re.grown.encode(std::uint32_t{0x5A5A5A5AU});
          re.grown.reset();
          re.grown.encode(x);
          const auto k3 = re.grown.get_key_view();
          ok = ok && k3.size() == kv.size() && std::memcmp(k3.data(), kv.data(), kv.size()) == 0;
          calls += 6;
        } else {
          calls += 1;
        }
      }
      ++checks;
      if (!ok || p == sample_at) {
        if (!ok) ++acc.vtotal;
        if ((!ok && acc.want_more()) || p == sample_at) {
          Gen g;
          g.want_sample = (p == sample_at);
          const Val v = make_num(K, xb);
          ReusedEncoders re2;
          gen_check_roundtrip(v, re2, g);
          if (p == sample_at) acc.sample = g.sample;
          if (!ok) record_generic(acc, g, p, 0, "C12", kind_name[K], "rt:" + val_str(v));
          else acc.transitions += g.calls;
        }
      }
    }
    acc.checks += checks;
    acc.classes += distinct;
    acc.transitions += calls;
  };
  Contained res = run_contained(o.threads, N, clamp_slices(N, 16384), fn);
  merge_into(part, res.pieces);
  account_crashes("C12", kind_name[K], part, res,
                  [&](std::uint64_t p) { return "rt:" + val_str(make_num(K, bits_at(p))); });
  return part;
}

// ---------------------------------------------------------------------------
// Tuple-valued domains (text, tuples, 8-bit all-pairs)
// ---------------------------------------------------------------------------

struct Domain {
  std::string label;                 // e.g. "text", "tuple-int32-text-int32"
  std::vector<Tuple> el;
  std::vector<std::string> enc;      // fresh-encoder bytes per element
  std::vector<char> have;            // 0 if the encoder crashed on the element
  std::vector<std::uint32_t> order;  // indices sorted in reference order
  std::uint64_t classes{0};
  Part enc_part;                     // accounting of the encode phase
};

// Encode every element with a fresh encoder (contained). Case e = element e.
void domain_encode(const Opt& o, Domain& d, const std::string& part_name) {
  const std::size_t n = d.el.size();
  d.enc.assign(n, {});
  d.have.assign(n, 0);
  const RangeFn fn = [&](std::uint64_t lo, std::uint64_t hi, Acc& acc, volatile std::uint64_t* prog) {
    Writer w;
    for (std::uint64_t e = lo; e < hi; ++e) {
      *prog = e;
      const std::string enc = encode_fresh(d.el[static_cast<std::size_t>(e)], acc.transitions);
      w.u64(e);
      w.str(enc);
    }
    acc.blob = std::move(w.b);
  };
  Contained res = run_contained(o.threads, n, clamp_slices(n, 128), fn);
  for (auto& pc : res.pieces) {
    Reader r{pc.acc.blob};
    while (r.pos < pc.acc.blob.size()) {
      const std::uint64_t e = r.u64();
      std::string enc = r.str();
      if (!r.ok || e >= n) die("bad encode-phase payload");
      d.enc[static_cast<std::size_t>(e)] = std::move(enc);
      d.have[static_cast<std::size_t>(e)] = 1;
    }
    pc.acc.blob.clear();
  }
  d.enc_part = Part{};
  d.enc_part.name = part_name;
  merge_into(d.enc_part, res.pieces);
  account_crashes(o.property, d.label, d.enc_part, res, [&](std::uint64_t e) {
    return "enc:" + tuple_str(d.el[static_cast<std::size_t>(e)]);
  });
  d.enc_part.checks = 0;  // encoding alone is not a check
}

// Sort in reference order (ties by index) and count the classes, cross-checking
// the order reference against the separately written normalised equality.
void domain_sort(Domain& d) {
  d.order.resize(d.el.size());
  for (std::size_t i = 0; i < d.el.size(); ++i) d.order[i] = static_cast<std::uint32_t>(i);
  std::stable_sort(d.order.begin(), d.order.end(), [&](std::uint32_t a, std::uint32_t b) {
    return ref_cmp_tuple(d.el[a], d.el[b]) < 0;
  });
  d.classes = d.el.empty() ? 0 : 1;
  for (std::size_t i = 0; i + 1 < d.order.size(); ++i) {
    const Tuple& a = d.el[d.order[i]];
    const Tuple& b = d.el[d.order[i + 1]];
    const int r = ref_cmp_tuple(a, b);
    if (r > 0) die("domain_sort: not sorted");
    if ((r == 0) != norm_equal_tuple(a, b)) die("reference order and normalised equality disagree");
    if (r < 0) ++d.classes;
  }
}

inline bool order_ok(const Domain& d, std::size_t i, std::size_t j) {
  const int r = ref_cmp_tuple(d.el[i], d.el[j]);
  const std::string& a = d.enc[i];
  const std::string& b = d.enc[j];
  return lib_compare(uc(a), a.size(), uc(b), b.size()) == r &&
         indep_compare(uc(a), a.size(), uc(b), b.size()) == r;
}
inline bool prefix_ok(const Domain& d, std::size_t i, std::size_t j) {
  const bool eq_ref = norm_equal_tuple(d.el[i], d.el[j]);
  const std::string& a = d.enc[i];
  const std::string& b = d.enc[j];
  const bool eq_enc = (a == b);
  if (eq_ref != eq_enc) return false;
  if (!eq_ref && (proper_prefix(a, b) || proper_prefix(b, a))) return false;
  return true;
}

enum class PairCheck { order, prefix };

std::string pair_replay(const Domain& d, PairCheck pc, std::size_t i, std::size_t j) {
  return std::string(pc == PairCheck::order ? "order:" : "pf:") + tuple_str(d.el[i]) + ":" +
         tuple_str(d.el[j]);
}

void pair_failed(const Domain& d, PairCheck pc, std::size_t i, std::size_t j, std::uint64_t k1,
                 std::uint64_t k2, bool failed, bool sample, Acc& acc) {
  if (failed) ++acc.vtotal;
  if (!((failed && acc.want_more()) || sample)) return;
  Gen g;
  g.want_sample = sample;
  if (pc == PairCheck::order) gen_check_order(d.el[i], d.el[j], g);
  else gen_check_prefix(d.el[i], d.el[j], g);
  if (sample) acc.sample = g.sample;
  if (failed)
    record_generic(acc, g, k1, k2, pc == PairCheck::order ? "C11" : "C15", d.label,
                   pair_replay(d, pc, i, j));
  else
    acc.transitions += g.calls;
}

// Combine the accounting of the encode phase and of the pair phase.
void add_encode_phase(Part& part, const Domain& d) {
  part.transitions += d.enc_part.transitions;
  part.crashes += d.enc_part.crashes;
  part.vtotal += d.enc_part.vtotal;
  part.exhaustive = part.exhaustive && d.enc_part.exhaustive;
  std::vector<Viol> all = d.enc_part.viols;
  for (auto& v : part.viols) all.push_back(std::move(v));
  if (all.size() > MAX_VIOL) all.resize(MAX_VIOL);
  part.viols = std::move(all);
}

// All ordered pairs (i, j), including i == j. Case c = pair (c / n, c % n).
Part all_pairs(const Opt& o, const std::string& name, Domain& d, PairCheck pc) {
  Part part;
  part.name = name;
  part.size = d.el.size();
  const std::uint64_t n = d.el.size();
  const std::uint64_t si = n / 3, sj = (2 * n) / 3;
  const RangeFn fn = [&](std::uint64_t lo, std::uint64_t hi, Acc& acc, volatile std::uint64_t* prog) {
    std::uint64_t i = lo / n, j = lo % n;
    for (std::uint64_t c = lo; c < hi; ++c) {
      *prog = c;
      if (d.have[i] && d.have[j]) {
        const bool ok = (pc == PairCheck::order) ? order_ok(d, i, j) : prefix_ok(d, i, j);
        ++acc.checks;
        const bool sample = (i == si && j == sj);
        if (!ok || sample) pair_failed(d, pc, i, j, i, j, !ok, sample, acc);
      }
      if (++j == n) { j = 0; ++i; }
    }
  };
  Contained res = run_contained(o.threads, n * n, clamp_slices(n * n, 150000), fn);
  merge_into(part, res.pieces);
  account_crashes(o.property, d.label, part, res, [&](std::uint64_t c) {
    return pair_replay(d, pc, static_cast<std::size_t>(c / n), static_cast<std::size_t>(c % n));
  });
  add_encode_phase(part, d);
  part.classes = d.classes;
  return part;
}

// Adjacent pairs of the reference-sorted order (decides all pairs of a totally
// ordered domain; equal neighbours cover the equivalence classes).
Part sorted_adjacent(const Opt& o, const std::string& name, Domain& d, PairCheck pc) {
  Part part;
  part.name = name;
  part.size = d.el.size();
  const std::uint64_t n = d.order.size();
  const std::uint64_t pairs = n ? n - 1 : 0;
  const RangeFn fn = [&](std::uint64_t lo, std::uint64_t hi, Acc& acc, volatile std::uint64_t* prog) {
    for (std::uint64_t p = lo; p < hi; ++p) {
      *prog = p;
      const std::size_t i = d.order[p], j = d.order[p + 1];
      if (!d.have[i] || !d.have[j]) continue;
      const bool ok = (pc == PairCheck::order) ? order_ok(d, i, j) : prefix_ok(d, i, j);
      ++acc.checks;
      const bool sample = (p == pairs / 2);
      if (!ok || sample) pair_failed(d, pc, i, j, p, 0, !ok, sample, acc);
    }
  };
  Contained res = run_contained(o.threads, pairs, clamp_slices(pairs, 256), fn);
  merge_into(part, res.pieces);
  account_crashes(o.property, d.label, part, res, [&](std::uint64_t p) {
    return pair_replay(d, pc, d.order[p], d.order[p + 1]);
  });
  add_encode_phase(part, d);
  part.classes = d.classes;
  return part;
}

// ---------------------------------------------------------------------------
// Domain construction
// ---------------------------------------------------------------------------

template <class T>
Domain full_numeric_domain() {  // every value of an 8-bit type
  Domain d;
  d.label = kind_name[Traits<T>::kind];
  for (std::uint64_t r = 0; r < (std::uint64_t{1} << (8 * sizeof(T))); ++r)
    d.el.push_back(Tuple{make_num(Traits<T>::kind, r)});
  return d;
}

// Lengths of the long-text family: maxlen-2 .. maxlen+9 and lengths around and
// beyond multiples of 65536 (a 16-bit length would wrap there).
std::vector<std::size_t> long_text_lengths() {
  std::vector<std::size_t> ls;
  for (std::size_t L = MAXLEN - 2; L <= 65541; ++L) ls.push_back(L);  // 65530 .. 65541
  ls.push_back(65536 + 65532);
  ls.push_back(2 * 65536);
  ls.push_back(2 * 65536 + 3);
  ls.push_back(3 * 65536 - 1);
  return ls;
}

// Long texts. Everything beyond offset maxlen is cut by the normalisation, so
// members that differ only there must encode equal.
std::vector<std::string> long_texts() {
  std::vector<std::string> out;
  const std::size_t M = MAXLEN;
  for (const std::size_t L : long_text_lengths()) {
    out.emplace_back(L, '\x01');
    out.emplace_back(L, '\xFF');
    { std::string s(L, '\x01'); s[L - 1] = '\x02'; out.push_back(s); }   // differs in last byte only
    { std::string s(L, '\x01'); s[L - 1] = '\xFF'; out.push_back(s); }
    { std::string s(L, '\xFF'); s[L - 1] = '\xFE'; out.push_back(s); }
    for (std::size_t p = M - 2; p <= M + 1; ++p) {  // differs only at offset p
      if (p + 1 >= L) continue;                      // (last byte handled above)
      std::string s(L, '\x01');
      s[p] = '\x02';
      out.push_back(s);
    }
    if (L > M + 6) { std::string s(L, '\x01'); s[M + 5] = '\x02'; out.push_back(s); }  // beyond maxlen only
    { std::string s(L, '\x01'); s[L - 1] = '\0'; out.push_back(s); }               // one trailing pad
    { std::string s(L, '\x01'); s[L - 1] = '\0'; s[L - 2] = '\0'; out.push_back(s); }  // two
  }
  out.emplace_back(65536, 'z');
  return out;
}

// All strings of length 0..6 over {01,02,FF}, each with 0..2 trailing pad
// bytes, "m" and "z", plus the long texts (spread evenly among the short ones
// so that contiguous slices of the pair space cost about the same).
Domain text_domain() {
  Domain d;
  d.label = "text";
  std::vector<std::string> shorts;
  const char A[3] = {'\x01', '\x02', '\xFF'};
  for (int len = 0; len <= 6; ++len) {
    std::uint64_t total = 1;
    for (int i = 0; i < len; ++i) total *= 3;
    for (std::uint64_t idx = 0; idx < total; ++idx) {
      std::string s;
      std::uint64_t x = idx;
      for (int i = 0; i < len; ++i) { s.push_back(A[x % 3]); x /= 3; }
      for (int pad = 0; pad <= 2; ++pad)
        shorts.push_back(s + std::string(static_cast<std::size_t>(pad), '\0'));
    }
  }
  shorts.emplace_back("m");
  shorts.emplace_back("z");
  const std::vector<std::string> longs = long_texts();
  const std::size_t every = shorts.size() / longs.size();
  std::size_t li = 0;
  for (std::size_t i = 0; i < shorts.size(); ++i) {
    d.el.push_back(Tuple{make_text(shorts[i])});
    if ((i + 1) % every == 0 && li < longs.size()) d.el.push_back(Tuple{make_text(longs[li++])});
  }
  while (li < longs.size()) d.el.push_back(Tuple{make_text(longs[li++])});
  for (const auto& t : d.el)
    if (has_interior_zero(t[0].text)) die("text domain contains an interior zero byte");
  return d;
}

template <class T> Val num_of(T v) { return make_num(Traits<T>::kind, to_bits(v)); }

std::vector<Val> pool_short_text() {
  return {make_text(""), make_text("\x01"), make_text(std::string("\x01\x00", 2)),
          make_text("\x01\x01"), make_text("\x01\xFF"), make_text("\xFF")};
}
std::vector<Val> pool_long_text() {
  return {make_text(std::string(MAXLEN - 1, '\x01')), make_text(std::string(MAXLEN, '\x01')),
          make_text(std::string(MAXLEN + 1, '\x01'))};
}
// Texts made of the bytes that also occur in the text terminator (00, ff,
// fa..fe): what makes a mis-aligned field readable as a different valid key.
std::vector<Val> pool_terminator_text() {
  return {make_text(""), make_text(std::string("\x00", 1)), make_text("\x01"), make_text("\xFF"),
          make_text("\xFD"), make_text("\xFF\xFA"), make_text("\xFF\xFB"), make_text("\xFF\xFC"),
          make_text("\xFF\xFD"), make_text("\xFF\xFE"), make_text(std::string("\xFF\xFD\x00", 3))};
}
std::vector<Val> pool_f32() {
  using L = std::numeric_limits<float>;
  return {num_of(-L::infinity()), num_of(-1.0F), num_of(-0.0F), num_of(0.0F), num_of(1.0F),
          num_of(L::infinity()), make_num(K_F32, 0x7FC00000U), make_num(K_F32, 0xFF800001U)};
}
std::vector<Val> pool_f64() {
  using L = std::numeric_limits<double>;
  return {num_of(-L::infinity()), num_of(-0.0), num_of(0.0), num_of(1.0), num_of(L::infinity()),
          make_num(K_F64, 0x7FF8000000000000ULL), make_num(K_F64, 0xFFF0000000000001ULL)};
}

Domain product_domain(const std::vector<std::vector<Val>>& pools) {
  Domain d;
  std::uint64_t total = 1;
  for (const auto& p : pools) total *= p.size();
  for (std::uint64_t idx = 0; idx < total; ++idx) {
    Tuple t;
    std::uint64_t x = idx;
    for (const auto& p : pools) { t.push_back(p[x % p.size()]); x /= p.size(); }
    for (const auto& v : t)
      if (v.k == K_TEXT && has_interior_zero(v.text)) die("tuple text with interior zero");
    d.el.push_back(std::move(t));
  }
  d.label = schema_label(d.el.front());
  return d;
}

std::vector<Domain> tuple_domains() {
  using I32 = std::numeric_limits<std::int32_t>;
  using I64 = std::numeric_limits<std::int64_t>;
  const std::vector<Val> i32 = {num_of(I32::min()), num_of(std::int32_t{-1}), num_of(std::int32_t{0}),
                                num_of(std::int32_t{1}), num_of(I32::max())};
  const std::vector<Val> i64 = {num_of(I64::min()), num_of(std::int64_t{-256}), num_of(std::int64_t{-1}),
                                num_of(std::int64_t{0}), num_of(std::int64_t{1}), num_of(I64::max())};
  const std::vector<Val> u8 = {num_of(std::uint8_t{0}), num_of(std::uint8_t{1}), num_of(std::uint8_t{0x7F}),
                               num_of(std::uint8_t{0x80}), num_of(std::uint8_t{0xFF})};
  const std::vector<Val> u16 = {num_of(std::uint16_t{0}), num_of(std::uint16_t{1}), num_of(std::uint16_t{0x00FF}),
                                num_of(std::uint16_t{0x0100}), num_of(std::uint16_t{0xFFFF})};
  const std::vector<Val> u64 = {num_of(std::uint64_t{0}), num_of(std::uint64_t{1}),
                                num_of(std::uint64_t{0x00FFFFFFFFFFFFFFULL}),
                                num_of(std::uint64_t{0x0100000000000000ULL}),
                                num_of(std::uint64_t{0x8000000000000000ULL}),
                                num_of(std::uint64_t{0xFFFFFFFFFFFFFFFFULL})};
  const std::vector<Val> i8 = {num_of(std::int8_t{-128}), num_of(std::int8_t{-1}), num_of(std::int8_t{0}),
                               num_of(std::int8_t{1}), num_of(std::int8_t{127})};
  const std::vector<Val> i16 = {num_of(std::int16_t{-32768}), num_of(std::int16_t{-1}), num_of(std::int16_t{0}),
                                num_of(std::int16_t{255}), num_of(std::int16_t{256}), num_of(std::int16_t{32767})};
  const std::vector<Val> u32 = {num_of(std::uint32_t{0}), num_of(std::uint32_t{1}), num_of(std::uint32_t{0x7FFFFFFFU}),
                                num_of(std::uint32_t{0x80000000U}), num_of(std::uint32_t{0xFFFFFFFFU})};
  // components whose encoding ends in 0x00, in front of terminator-like texts
  const std::vector<Val> u16z = {num_of(std::uint16_t{0}), num_of(std::uint16_t{1}), num_of(std::uint16_t{0x00FF}),
                                 num_of(std::uint16_t{0x0100}), num_of(std::uint16_t{0x0101}),
                                 num_of(std::uint16_t{0x0200}), num_of(std::uint16_t{0xFF00}),
                                 num_of(std::uint16_t{0xFFFF})};
  const std::vector<Val> u8z = {num_of(std::uint8_t{0}), num_of(std::uint8_t{1}), num_of(std::uint8_t{0xFF})};
  const std::vector<Val> f32z = {num_of(0.0F), num_of(-0.0F), num_of(1.0F), num_of(2.0F), num_of(-2.0F),
                                 num_of(256.0F)};
  const std::vector<Val> u32z = {num_of(std::uint32_t{0}), num_of(std::uint32_t{256}), num_of(std::uint32_t{65536}),
                                 num_of(std::uint32_t{0x01000000U}), num_of(std::uint32_t{255})};
  const auto st = pool_short_text();
  auto st_long = st;
  for (auto& v : pool_long_text()) st_long.push_back(v);
  const std::vector<Val> st_tail = {make_text(""), make_text("\x01"), make_text("\xFF"),
                                    make_text(std::string("\x01\x00\x00", 3))};
  const auto tt = pool_terminator_text();
  std::vector<Domain> out;
  out.push_back(product_domain({i32, st, i32}));
  out.push_back(product_domain({st_long, st}));
  out.push_back(product_domain({pool_f32(), i64}));
  out.push_back(product_domain({u8, u64}));
  out.push_back(product_domain({st, u16, st_tail}));
  out.push_back(product_domain({pool_f64(), st_long}));
  out.push_back(product_domain({i8, i16, u32}));
  out.push_back(product_domain({u16z, tt, u8z}));
  out.push_back(product_domain({f32z, tt, u8z}));
  out.push_back(product_domain({u32z, tt}));
  return out;
}

// ---- C12 component sequences ----
const std::vector<std::vector<Val>>& seq_tables() {
  static const std::vector<std::vector<Val>> tab = [] {
    std::vector<std::vector<Val>> t(K_COUNT);
    const std::uint64_t pat[6] = {0x0000000000000000ULL, 0x0102030405060708ULL, 0x7FFFFFFFFFFFFFFFULL,
                                  0x8000000000000000ULL, 0xFEDCBA9876543210ULL, 0xFFFFFFFFFFFFFFFFULL};
    for (int k = K_I8; k <= K_U64; ++k)
      for (const auto p : pat) t[static_cast<std::size_t>(k)].push_back(make_num(static_cast<Kind>(k), p >> (64 - 8 * kind_size[k])));
    t[K_F32] = pool_f32();
    t[K_F64] = pool_f64();
    t[K_TEXT] = {make_text(""), make_text("\x01"), make_text("\x01\x02\xFF"),
                 make_text(std::string(6, '\xFF')), make_text(std::string("\x01\x00", 2)),
                 make_text(std::string(40, '\x02'))};
    return t;
  }();
  return tab;
}
Val lead_text(int len) {
  std::string s(static_cast<std::size_t>(len), 'a');
  if (len > 0) s.back() = 'b';
  return make_text(std::move(s));
}

// Family "growth": kind pattern x leading text x total length 1..80.
constexpr int SEQ_PATTERNS = 11 + 11 * 4;
const int SEQ_LEADS[] = {-1, 0, 100, 200, 245, 246, 247, 248, 249, 250, 251, 252, 253, 254, 255, 256,
                         300, 500, 505, 506, 507, 508, 509, 510, 511, 512, 1000, 1017, 1018, 1019,
                         1020, 1021, 1022, 1023, 1024, 70000};
constexpr int SEQ_NLEADS = static_cast<int>(sizeof(SEQ_LEADS) / sizeof(SEQ_LEADS[0]));
constexpr int SEQ_MAXN = 80;
constexpr std::uint64_t SEQ_GROWTH_TOTAL = static_cast<std::uint64_t>(SEQ_PATTERNS) * SEQ_NLEADS * SEQ_MAXN;

Tuple make_seq_growth(std::uint64_t s) {
  const int n = static_cast<int>(s % SEQ_MAXN) + 1;
  const int lead_idx = static_cast<int>((s / SEQ_MAXN) % SEQ_NLEADS);
  const int pattern = static_cast<int>(s / SEQ_MAXN / SEQ_NLEADS);
  const auto& tab = seq_tables();
  Tuple t;
  const int lead = SEQ_LEADS[lead_idx];
  if (lead >= 0) t.push_back(lead_text(lead));
  const int strides[4] = {1, 2, 3, 5};
  for (int i = 0; static_cast<int>(t.size()) < n; ++i) {
    int kind;
    if (pattern < 11) kind = pattern;
    else {
      const int q = pattern - 11;
      kind = ((q % 11) + i * strides[q / 11]) % 11;
    }
    const auto& tb = tab[static_cast<std::size_t>(kind)];
    t.push_back(tb[static_cast<std::size_t>(i * 7 + pattern * 3 + n) % tb.size()]);
  }
  return t;
}

// Family "text-after-zero": a text (empty, pad-only, ...) directly after a
// fixed-size component whose encoding ends in 0x00, at many buffer offsets.
std::vector<int> taz_leads() {
  std::vector<int> v = {-1, 0, 1, 100};
  for (int l = 240; l <= 258; ++l) v.push_back(l);
  for (int l = 505; l <= 512; ++l) v.push_back(l);
  for (int l = 1017; l <= 1024; ++l) v.push_back(l);
  return v;
}
std::vector<Val> taz_zero_enders() {
  return {num_of(std::uint8_t{0}),       num_of(std::int8_t{-128}),       num_of(std::uint16_t{0x0100}),
          num_of(std::uint16_t{0}),      num_of(std::int16_t{0}),         num_of(std::uint32_t{0x100}),
          num_of(std::uint32_t{0x01000000U}), num_of(std::int32_t{0}),    num_of(std::uint64_t{0x0100}),
          num_of(std::int64_t{0}),       num_of(1.0F),                    num_of(2.0F),
          num_of(1.0),                   num_of(2.0)};
}
std::vector<Val> taz_texts() {
  return {make_text(""), make_text(std::string("\x00", 1)), make_text(std::string("\x00\x00", 2)),
          make_text("\x01"), make_text("\xFF\xFD"), make_text(std::string("\x01\x00", 2)),
          make_text(std::string("\xFF\xFD\x00", 3))};
}
constexpr int TAZ_TRAILERS = 4;
const int TAZ_REPS[4] = {2, 10, 40, 90};
std::uint64_t taz_total() {
  const std::uint64_t z = taz_zero_enders().size(), t = taz_texts().size();
  return taz_leads().size() * z * t * TAZ_TRAILERS + 4 * z * t;
}
Tuple make_seq_taz(std::uint64_t s) {
  static const std::vector<int> leads = taz_leads();
  static const std::vector<Val> zs = taz_zero_enders();
  static const std::vector<Val> ts = taz_texts();
  const std::uint64_t single = leads.size() * zs.size() * ts.size() * TAZ_TRAILERS;
  Tuple t;
  if (s < single) {
    const std::uint64_t tr = s % TAZ_TRAILERS; s /= TAZ_TRAILERS;
    const Val& tx = ts[s % ts.size()]; s /= ts.size();
    const Val& z = zs[s % zs.size()]; s /= zs.size();
    const int lead = leads[static_cast<std::size_t>(s)];
    if (lead >= 0) t.push_back(lead_text(lead));
    t.push_back(z);
    t.push_back(tx);
    if (tr == 1) t.push_back(num_of(std::uint8_t{0}));
    if (tr == 2) t.push_back(num_of(std::uint16_t{0xFFFA}));
    if (tr == 3) t.push_back(make_text(""));
    return t;
  }
  s -= single;  // repeated (zero-ender, text) pairs
  const Val& tx = ts[s % ts.size()]; s /= ts.size();
  const Val& z = zs[s % zs.size()]; s /= zs.size();
  for (int i = 0; i < TAZ_REPS[s]; ++i) { t.push_back(z); t.push_back(tx); }
  return t;
}

// Family "byte-at-capacity": an 8-bit component that starts exactly where the
// buffer capacity ends (offsets 256, 512, 1024, 2048) after components of
// another width, or after a text of the right length.
const Kind BAC_FILL[9] = {K_U8, K_U16, K_I16, K_U32, K_I32, K_F32, K_U64, K_I64, K_F64};
const std::size_t BAC_TARGET[4] = {256, 512, 1024, 2048};
constexpr std::uint64_t BAC_TOTAL = (9 + 1) * 4 * 4 * 3;
Tuple make_seq_bac(std::uint64_t s) {
  const std::uint64_t tr = s % 3; s /= 3;
  const std::uint64_t bi = s % 4; s /= 4;
  const std::size_t target = BAC_TARGET[s % 4]; s /= 4;
  Tuple t;
  if (s < 9) {
    const Kind k = BAC_FILL[s];
    for (std::size_t i = 0; i * kind_size[k] < target; ++i)
      t.push_back(make_num(k, 0x1122334455667788ULL + i * 0x0101010101010101ULL));
  } else {
    t.push_back(lead_text(static_cast<int>(target - TEXT_TERMINATOR)));
  }
  const Val bytes[4] = {num_of(std::uint8_t{0x5A}), num_of(std::uint8_t{0}), num_of(std::int8_t{-1}),
                        num_of(std::int8_t{0x7F})};
  t.push_back(bytes[bi]);
  if (tr == 1) t.push_back(num_of(std::uint16_t{0x1234}));
  if (tr == 2) t.push_back(make_text("\x01"));
  return t;
}

std::uint64_t tuple_hash(const Tuple& t) {
  std::uint64_t h = 0xcbf29ce484222325ULL;
  auto mix = [&](std::uint64_t x) {
    for (int i = 0; i < 8; ++i) { h ^= (x >> (8 * i)) & 0xFF; h *= 0x100000001b3ULL; }
  };
  for (const auto& v : t) {
    mix(static_cast<std::uint64_t>(v.k) + 0x100);
    if (v.k == K_TEXT) {
      mix(v.text.size());
      for (const char c : v.text) { h ^= static_cast<unsigned char>(c); h *= 0x100000001b3ULL; }
    } else {
      mix(v.bits);
    }
  }
  return h;
}

// One family of component sequences. Case s = sequence make(s).
Part seq_part(const Opt& o, const std::string& name, std::uint64_t total,
              const std::function<Tuple(std::uint64_t)>& make) {
  Part part;
  part.name = name;
  part.size = total;
  const std::uint64_t sample_at = total / 2 + 37 < total ? total / 2 + 37 : total / 2;
  const RangeFn fn = [&](std::uint64_t lo, std::uint64_t hi, Acc& acc, volatile std::uint64_t* prog) {
    unodb::key_encoder reused;
    Writer w;
    for (std::uint64_t s = lo; s < hi; ++s) {
      *prog = s;
      const Tuple tup = make(s);
      w.u64(tuple_hash(tup));
      Gen g;
      g.want_sample = (s == sample_at);
      gen_check_seq(tup, reused, g);
      ++acc.checks;
      acc.transitions += g.calls;
      if (s == sample_at) acc.sample = g.sample;
      if (!g.out.empty()) {
        ++acc.vtotal;
        for (auto& v : g.out) {
          if (!acc.want_more()) break;
          v.k1 = s;
          acc.viols.push_back(std::move(v));
        }
      }
    }
    acc.blob = std::move(w.b);
  };
  Contained res = run_contained(o.threads, total, clamp_slices(total, 64), fn);
  std::vector<std::uint64_t> all;
  for (auto& pc : res.pieces) {
    Reader r{pc.acc.blob};
    while (r.pos < pc.acc.blob.size()) all.push_back(r.u64());
    pc.acc.blob.clear();
  }
  merge_into(part, res.pieces);
  account_crashes("C12", dom_of(name), part, res,
                  [&](std::uint64_t s) { return "seq:" + tuple_str(make(s)); });
  std::sort(all.begin(), all.end());
  part.classes = static_cast<std::uint64_t>(std::unique(all.begin(), all.end()) - all.begin());
  return part;
}

// ---------------------------------------------------------------------------
// Property runners
// ---------------------------------------------------------------------------

template <class T>
void c11_numeric(const Opt& o, std::vector<Part>& parts, bool full_chain) {
  using U = typename Traits<T>::U;
  const std::string base = kind_name[Traits<T>::kind];
  if (full_chain) {
    const std::string name = base + "/chain";
    if (!want(o, name)) return;
    parts.push_back(c11_walk<T>(o, name, full_count<T>(),
                                [](std::uint64_t r) { return full_rank_to_bits<T>(r); }));
  } else {
    const std::string name = base + "/sorted-adjacent";
    if (!want(o, name)) return;
    const std::vector<U> v = structured_domain<T>(o.tier == "thorough");
    parts.push_back(c11_walk<T>(o, name, v.size(), [&v](std::uint64_t r) { return v[r]; }));
  }
}

void run_c11(const Opt& o, std::vector<Part>& parts) {
  const bool thorough = (o.tier == "thorough");
  auto pairs8 = [&](Domain d, const std::string& name) {
    if (!want(o, name)) return;
    domain_encode(o, d, name);
    domain_sort(d);
    parts.push_back(all_pairs(o, name, d, PairCheck::order));
  };
  pairs8(full_numeric_domain<std::int8_t>(), "int8/all-pairs");
  pairs8(full_numeric_domain<std::uint8_t>(), "uint8/all-pairs");
  c11_numeric<std::int16_t>(o, parts, true);
  c11_numeric<std::uint16_t>(o, parts, true);
  c11_numeric<std::int32_t>(o, parts, thorough);
  c11_numeric<std::uint32_t>(o, parts, thorough);
  c11_numeric<float>(o, parts, thorough);
  c11_numeric<std::int64_t>(o, parts, false);
  c11_numeric<std::uint64_t>(o, parts, false);
  c11_numeric<double>(o, parts, false);
  {
    const std::string name = thorough ? "text/all-pairs" : "text/sorted-adjacent";
    if (want(o, name)) {
      Domain d = text_domain();
      domain_encode(o, d, name);
      domain_sort(d);
      parts.push_back(thorough ? all_pairs(o, name, d, PairCheck::order)
                               : sorted_adjacent(o, name, d, PairCheck::order));
    }
  }
  for (auto& d : tuple_domains()) {
    const std::string name = d.label + "/all-pairs";
    if (!want(o, name)) continue;
    domain_encode(o, d, name);
    domain_sort(d);
    parts.push_back(all_pairs(o, name, d, PairCheck::order));
  }
}

template <class T>
void c12_numeric(const Opt& o, std::vector<Part>& parts, bool full) {
  using U = typename Traits<T>::U;
  const std::string base = kind_name[Traits<T>::kind];
  if (full) {
    const std::string name = base + "/all-values";
    if (!want(o, name)) return;
    parts.push_back(c12_walk<T>(o, name, full_count<T>(),
                                [](std::uint64_t r) { return full_rank_to_bits<T>(r); }));
  } else {
    const std::string name = base + "/structured";
    if (!want(o, name)) return;
    const std::vector<U> v = structured_domain<T>(o.tier == "thorough");
    parts.push_back(c12_walk<T>(o, name, v.size(), [&v](std::uint64_t r) { return v[r]; }));
  }
}

void run_c12(const Opt& o, std::vector<Part>& parts) {
  const bool thorough = (o.tier == "thorough");
  c12_numeric<std::int8_t>(o, parts, true);
  c12_numeric<std::uint8_t>(o, parts, true);
  c12_numeric<std::int16_t>(o, parts, true);
  c12_numeric<std::uint16_t>(o, parts, true);
  c12_numeric<std::int32_t>(o, parts, thorough);
  c12_numeric<std::uint32_t>(o, parts, thorough);
  c12_numeric<float>(o, parts, thorough);
  c12_numeric<std::int64_t>(o, parts, false);
  c12_numeric<std::uint64_t>(o, parts, false);
  c12_numeric<double>(o, parts, false);
  if (want(o, "seq/growth")) parts.push_back(seq_part(o, "seq/growth", SEQ_GROWTH_TOTAL, make_seq_growth));
  if (want(o, "seq/text-after-zero"))
    parts.push_back(seq_part(o, "seq/text-after-zero", taz_total(), make_seq_taz));
  if (want(o, "seq/byte-at-capacity"))
    parts.push_back(seq_part(o, "seq/byte-at-capacity", BAC_TOTAL, make_seq_bac));
}

// C15: size bound and overload agreement for every element of the domains.
Part c15_outsize(const Opt& o, const std::string& name, const std::vector<const Domain*>& doms) {
  Part part;
  part.name = name;
  std::vector<const Tuple*> all;
  for (const auto* d : doms) for (const auto& t : d->el) all.push_back(&t);
  part.size = all.size();
  const RangeFn fn = [&](std::uint64_t lo, std::uint64_t hi, Acc& acc, volatile std::uint64_t* prog) {
    for (std::uint64_t i = lo; i < hi; ++i) {
      *prog = i;
      Gen g;
      g.want_sample = (i == all.size() / 2);
      gen_check_outsize(*all[static_cast<std::size_t>(i)], g);
      ++acc.checks;
      acc.transitions += g.calls;
      if (g.want_sample) acc.sample = g.sample;
      if (!g.out.empty()) {
        ++acc.vtotal;
        for (auto& v : g.out) {
          if (!acc.want_more()) break;
          v.k1 = i;
          acc.viols.push_back(std::move(v));
        }
      }
    }
  };
  Contained res = run_contained(o.threads, all.size(), clamp_slices(all.size(), 128), fn);
  merge_into(part, res.pieces);
  account_crashes("C15", "text", part, res, [&](std::uint64_t i) {
    return "osz:" + tuple_str(*all[static_cast<std::size_t>(i)]);
  });
  part.classes = 0;  // classes are counted by the pair parts
  return part;
}

std::vector<std::string> guard_contents() {
  const std::size_t M = MAXLEN;
  std::vector<std::string> c;
  c.emplace_back(M, '\x01');
  c.emplace_back(M, '\xFF');
  { std::string s(M, '\x01'); s[M - 1] = '\x02'; c.push_back(s); }
  { std::string s(M, '\x01'); s[M - 1] = '\0'; c.push_back(s); }
  { std::string s(M, '\x01'); s[M - 1] = '\0'; s[M - 2] = '\0'; c.push_back(s); }
  c.emplace_back(M, '\0');
  return c;
}
// Nominal lengths: maxlen+1 .. maxlen+9, around and beyond multiples of 65536,
// and large ones.
std::vector<std::uint64_t> guard_nominals() {
  std::vector<std::uint64_t> v;
  for (std::uint64_t n = MAXLEN + 1; n <= 65541; ++n) v.push_back(n);
  for (const std::uint64_t n : {MAXLEN + 100, MAXLEN + 4096, std::uint64_t{65536 + 65532},
                                std::uint64_t{2 * 65536}, std::uint64_t{2 * 65536 + 3},
                                std::uint64_t{3 * 65536 - 1}, std::uint64_t{1} << 20,
                                std::uint64_t{1} << 31})
    v.push_back(n);
  return v;
}

Part c15_guard(const Opt& o, const std::string& name) {
  Part part;
  part.name = name;
  const auto contents = guard_contents();
  const auto nominals = guard_nominals();
  part.size = contents.size();
  const std::uint64_t per = nominals.size() * 2;
  const std::uint64_t total = contents.size() * per;
  auto replay_of = [&](std::uint64_t idx) {
    return "guard:" + rle_of(contents[static_cast<std::size_t>(idx / per)]) + ":" +
           std::to_string(nominals[static_cast<std::size_t>((idx % per) / 2)]) + ":" +
           ((idx % 2) ? "sv" : "span");
  };
  const RangeFn fn = [&](std::uint64_t lo, std::uint64_t hi, Acc& acc, volatile std::uint64_t* prog) {
    for (std::uint64_t idx = lo; idx < hi; ++idx) {
      *prog = idx;
      Gen g;
      g.want_sample = (idx == 0);
      gen_check_guard(contents[static_cast<std::size_t>(idx / per)],
                      nominals[static_cast<std::size_t>((idx % per) / 2)], (idx % 2) != 0, g);
      ++acc.checks;
      acc.transitions += g.calls;
      if (g.want_sample) acc.sample = g.sample;
      if (!g.out.empty()) {
        ++acc.vtotal;
        for (auto& v : g.out) {
          if (!acc.want_more()) break;
          v.k1 = idx;
          acc.viols.push_back(std::move(v));
        }
      }
    }
  };
  Contained res = run_contained(o.threads, total, contents.size(), fn);
  merge_into(part, res.pieces);
  account_crashes("C15", "text", part, res, replay_of);
  return part;
}

void run_c15(const Opt& o, std::vector<Part>& parts) {
  Domain text = text_domain();
  std::vector<Domain> tuples = tuple_domains();
  if (want(o, "text/all-pairs")) {
    domain_encode(o, text, "text/all-pairs");
    domain_sort(text);
    parts.push_back(all_pairs(o, "text/all-pairs", text, PairCheck::prefix));
  }
  for (auto& d : tuples) {
    const std::string name = d.label + "/all-pairs";
    if (!want(o, name)) continue;
    domain_encode(o, d, name);
    domain_sort(d);
    parts.push_back(all_pairs(o, name, d, PairCheck::prefix));
  }
  if (want(o, "text/output-size")) {
    std::vector<const Domain*> doms{&text};
    for (const auto& d : tuples) doms.push_back(&d);
    parts.push_back(c15_outsize(o, "text/output-size", doms));
  }
  if (want(o, "text/guard-page")) parts.push_back(c15_guard(o, "text/guard-page"));
}

// ---------------------------------------------------------------------------
// Replay of one case
// ---------------------------------------------------------------------------

// Evaluate the case named by a replay argument (runs inside a worker).
void eval_replay(const std::string& property, const std::string& replay, Gen& g) {
  const auto f = split(replay, ':');
  const std::string& what = f[0];
  auto need = [&](std::size_t n, const char* prop) {
    if (f.size() != n) die("replay arg has the wrong number of fields: " + shorten(replay));
    if (prop != nullptr && property != prop) die("replay arg '" + what + "' belongs to property " + prop);
  };
  if (what == "order") {
    need(3, "C11");
    gen_check_order(tuple_parse(f[1]), tuple_parse(f[2]), g);
  } else if (what == "rt") {
    need(2, "C12");
    const Tuple t = tuple_parse(f[1]);
    if (t.size() != 1) die("rt takes one component");
    ReusedEncoders re;
    gen_check_roundtrip(t[0], re, g);
  } else if (what == "seq") {
    need(2, "C12");
    unodb::key_encoder reused;
    gen_check_seq(tuple_parse(f[1]), reused, g);
  } else if (what == "pf") {
    need(3, "C15");
    gen_check_prefix(tuple_parse(f[1]), tuple_parse(f[2]), g);
  } else if (what == "osz") {
    need(2, "C15");
    gen_check_outsize(tuple_parse(f[1]), g);
  } else if (what == "enc") {  // encode only: a finding only if the encoder crashes
    need(2, nullptr);
    const std::string e = encode_fresh(tuple_parse(f[1]), g.calls);
    if (g.want_sample) g.sample = JObj{}.str("key", f[1]).num("enc_size", e.size()).str("enc", hex_of(e)).done();
  } else if (what == "guard") {
    need(4, "C15");
    if (f[3] != "sv" && f[3] != "span") die("guard overload must be sv or span");
    gen_check_guard(rle_parse(f[1]), std::strtoull(f[2].c_str(), nullptr, 10), f[3] == "sv", g);
  } else {
    die("unknown replay arg: " + shorten(replay));
  }
}

// Domain label of the case named by a replay argument (for crash signatures).
std::string replay_dom(const std::string& replay) {
  const auto f = split(replay, ':');
  if (f[0] == "seq") return "seq";
  if (f[0] == "guard") return "text";
  if (f.size() < 2) die("bad replay arg");
  return schema_label(tuple_parse(f[1]));
}

Part run_replay(const Opt& o) {
  Part part;
  part.name = "replay";
  part.size = (o.replay.rfind("order:", 0) == 0 || o.replay.rfind("pf:", 0) == 0) ? 2 : 1;
  part.checks = 1;
  part.classes = 1;
  const std::string dom = replay_dom(o.replay);  // also validates the syntax in the parent
  Single s = run_single(o.property, o.replay);
  if (s.crashed) {
    part.crashes = 1;
    part.vtotal = 1;
    part.viols.push_back(crash_viol(o.property, dom, o.replay, crash_cause(s.crash), true, 0));
    return part;
  }
  part.transitions = s.acc.transitions;
  part.sample = s.acc.sample;
  part.vtotal = s.acc.vtotal;
  part.viols = std::move(s.acc.viols);
  return part;
}

const char* rule_of(const std::string& p) {
  if (p == "C11")
    return "Exhaustive enumeration, no sampling. Each part lists one finite domain. 'all-pairs': every ordered "
           "pair (a,b) of the domain; 'chain': every value of the type walked in reference order, each value "
           "against its successor; 'sorted-adjacent': the domain sorted by the reference order, each element "
           "against its neighbour (decides all pairs because both orders are total and transitive; equal "
           "neighbours cover equivalence classes such as the NaNs). A check requires sign(unodb::detail::compare("
           "enc a, enc b)) == sign(independent bytewise compare) == reference compare (integer compare; IEEE "
           "order with -0 < +0 and all NaNs equal and greatest; bytewise order of text cut to maxlen with trailing "
           "zero padding removed; lexicographic on tuples). distinct_nontrivial = number of distinct "
           "reference-order classes, counted per part as 1 + number of strictly ascending neighbour steps. "
           "All calls into the code under test run in forked workers; a worker death is a '.../crash' violation.";
  if (p == "C12")
    return "Exhaustive enumeration, no sampling. Numeric parts: every listed value x is encoded by a fresh encoder "
           "(size must equal sizeof(T)), decoded (bits must equal x; any NaN must give a quiet NaN with the one "
           "bit pattern that decode(encode(quiet_NaN)) gives), and re-encoded by an encoder reused after reset() "
           "and by one that had grown to a heap buffer before reset() (bytes must equal the fresh ones). "
           "seq/* parts: deterministic families of component sequences (kind patterns x leading text lengths x "
           "1..80 components; texts directly after components ending in 0x00 at many offsets; 8-bit components "
           "starting exactly at a capacity boundary); fresh and reused encoder output must equal the concatenation "
           "of individually encoded components and the decoder must return every numeric component in order. "
           "distinct_nontrivial = number of distinct values (numeric parts: values differing from their "
           "predecessor in the duplicate-free walk; sequences: distinct content hashes). "
           "All calls into the code under test run in forked workers; a worker death is a '.../crash' violation.";
  return "Exhaustive enumeration, no sampling. all-pairs parts: for every ordered pair of keys of one schema the "
         "encodings are byte-equal exactly when the components are equal after normalisation (text cut to maxlen, "
         "trailing zero padding removed; NaNs unified; -0 and +0 distinct), and otherwise neither encoding is a "
         "proper prefix of the other. text/output-size: every key of every domain is at most sizeof(T) resp. "
         "maxlen+3 bytes per component and both encode_text overloads agree. text/guard-page: maxlen bytes of "
         "input end at a PROT_NONE region and are passed with a nominal length > maxlen; a fault is a violation. "
         "distinct_nontrivial = number of distinct normalised-equality classes over the pair parts. "
         "All calls into the code under test run in forked workers; a worker death is a '.../crash' violation.";
}

// The bit pattern the library's decoder produces for NaN, determined by a
// round trip of quiet_NaN (in a worker; falls back to quiet_NaN's own bits).
void init_canonical_nans() {
  g_canon_nan[K_F32] = to_bits(std::numeric_limits<float>::quiet_NaN());
  g_canon_nan[K_F64] = to_bits(std::numeric_limits<double>::quiet_NaN());
  const RangeFn fn = [](std::uint64_t, std::uint64_t, Acc& acc, volatile std::uint64_t* prog) {
    *prog = 0;
    Writer w;
    {
      unodb::key_encoder e;
      e.encode(std::numeric_limits<float>::quiet_NaN());
      unodb::key_decoder d{e.get_key_view()};
      float y;
      d.decode(y);
      w.u64(to_bits(y));
    }
    {
      unodb::key_encoder e;
      e.encode(std::numeric_limits<double>::quiet_NaN());
      unodb::key_decoder d{e.get_key_view()};
      double y;
      d.decode(y);
      w.u64(to_bits(y));
    }
    acc.blob = std::move(w.b);
  };
  Contained res = run_contained(1, 1, 1, fn);
  if (res.pieces.size() == 1 && res.pieces[0].acc.blob.size() == 16) {
    Reader r{res.pieces[0].acc.blob};
    g_canon_nan[K_F32] = r.u64();
    g_canon_nan[K_F64] = r.u64();
  }
}

[[noreturn]] void usage() {
  std::fprintf(stderr,
               "usage: codec --property C11|C12|C15 --tier quick|thorough --out <result.json>\n"
               "             [--threads N] [--only <part>] [--replay-arg <string>]\n");
  std::_Exit(2);
}

}  // namespace

// The library's heap hooks (UNODB_DETAIL_VERIF_HOOKS): every block the encoder allocates is filled with a fixed pattern, so
// that a result that depends on bytes the code under test never wrote is the same in the exploration and in every replay
// (and differs from the zero-filled pages a fresh process would otherwise see).
extern "C" {
void unodb_verif_point(unsigned, const volatile void*, unsigned, std::uint64_t) noexcept {}
void unodb_verif_spin() noexcept {}
void unodb_verif_alloc(void* ptr, std::size_t size) noexcept {
  if (ptr != nullptr) std::memset(ptr, 0xA5, size);
}
void unodb_verif_free(void*) noexcept {}
}

int main(int argc, char** argv) {
  Opt o;
  for (int i = 1; i < argc; ++i) {
    const std::string a = argv[i];
    auto next = [&]() -> std::string {
      if (i + 1 >= argc) usage();
      return argv[++i];
    };
    if (a == "--tier") o.tier = next();
    else if (a == "--out") o.out = next();
    else if (a == "--threads") o.threads = std::atoi(next().c_str());
    else if (a == "--only") o.only = next();
    else if (a == "--replay-arg") { o.replay = next(); o.has_replay = true; }
    else if (a == "--property") o.property = next();
    else usage();
  }
  if (o.tier != "quick" && o.tier != "thorough") usage();
  if (o.property != "C11" && o.property != "C12" && o.property != "C15") usage();
  if (o.out.empty()) usage();
  if (o.threads < 1) o.threads = 1;
  if (o.threads > 256) o.threads = 256;

  init_canonical_nans();

  std::vector<Part> parts;
  if (o.has_replay) {
    parts.push_back(run_replay(o));
  } else if (o.property == "C11") {
    run_c11(o, parts);
  } else if (o.property == "C12") {
    run_c12(o, parts);
  } else {
    run_c15(o, parts);
  }
  if (parts.empty()) die("no part matches --only " + o.only);

  std::uint64_t evaluations = 0, classes = 0, states = 0, transitions = 0, vtotal = 0, crashes = 0;
  bool exhaustive = true;
  std::vector<const Viol*> viols;
  std::vector<std::string> samples;
  for (const auto& p : parts) {
    evaluations += p.checks;
    classes += p.classes;
    states += p.size;
    transitions += p.transitions;
    vtotal += p.vtotal;
    crashes += p.crashes;
    exhaustive = exhaustive && p.exhaustive;
  }
  {  // at most MAX_VIOL reported: one from each failing part in turn (part order,
     // each part's own deterministic order), so that no failing part is hidden
    std::vector<std::vector<const Viol*>> chosen(parts.size());
    std::size_t total = 0;
    for (std::size_t round = 0; total < MAX_VIOL; ++round) {
      bool any = false;
      for (std::size_t i = 0; i < parts.size() && total < MAX_VIOL; ++i) {
        if (round < parts[i].viols.size()) {
          chosen[i].push_back(&parts[i].viols[round]);
          ++total;
          any = true;
        }
      }
      if (!any) break;
    }
    for (const auto& c : chosen) for (const Viol* v : c) viols.push_back(v);
  }
  {  // up to 5 samples spread over the parts
    std::vector<const Part*> with;
    for (const auto& p : parts) if (!p.sample.empty()) with.push_back(&p);
    const std::size_t want_n = std::min<std::size_t>(5, with.size());
    for (std::size_t k = 0; k < want_n; ++k) {
      const Part* p = with[(k * with.size()) / want_n];
      samples.push_back(JObj{}.str("part", p->name).raw("case", p->sample).done());
    }
  }

  std::string js = "{\n";
  js += "  \"property\": " + jstr(o.property) + ",\n";
  js += "  \"tier\": " + jstr(o.tier) + ",\n";
  js += std::string("  \"exhaustive\": ") + (exhaustive ? "true" : "false") + ",\n";
  js += "  \"evaluations\": " + std::to_string(evaluations) + ",\n";
  js += "  \"distinct_nontrivial\": " + std::to_string(classes) + ",\n";
  js += "  \"states\": " + std::to_string(states) + ",\n";
  js += "  \"transitions\": " + std::to_string(transitions) + ",\n";
  js += "  \"traces_validated_against_impl\": " + std::to_string(evaluations) + ",\n";
  js += "  \"rule\": " + jstr(rule_of(o.property)) + ",\n";
  js += "  \"maxlen\": " + std::to_string(MAXLEN) + ",\n";
  js += "  \"crashes\": " + std::to_string(crashes) + ",\n";
  if (o.has_replay) js += "  \"replay_arg\": " + jstr(o.replay) + ",\n";
  if (!o.only.empty()) js += "  \"only\": " + jstr(o.only) + ",\n";
  js += "  \"samples\": [";
  for (std::size_t i = 0; i < samples.size(); ++i) js += std::string(i ? ",\n    " : "\n    ") + samples[i];
  js += samples.empty() ? "],\n" : "\n  ],\n";
  js += "  \"parts\": [";
  for (std::size_t i = 0; i < parts.size(); ++i) {
    const auto& p = parts[i];
    js += std::string(i ? ",\n    " : "\n    ") +
          JObj{}.str("name", p.name).num("size", p.size).num("checks", p.checks)
              .boolean("exhaustive", p.exhaustive).num("classes", p.classes)
              .num("transitions", p.transitions).num("violations", p.vtotal)
              .num("crashes", p.crashes).done();
  }
  js += "\n  ],\n";
  js += "  \"violations\": [";
  for (std::size_t i = 0; i < viols.size(); ++i) {
    const auto& v = *viols[i];
    js += std::string(i ? ",\n    " : "\n    ") +
          JObj{}.str("what", v.what).str("signature", v.sig).str("replay_arg", v.replay)
              .raw("detail", v.detail.empty() ? "{}" : v.detail).done();
  }
  js += viols.empty() ? "],\n" : "\n  ],\n";
  js += "  \"violations_total\": " + std::to_string(vtotal) + "\n}\n";

  std::FILE* fp = std::fopen(o.out.c_str(), "w");
  if (fp == nullptr) die("cannot open --out file " + o.out);
  if (std::fwrite(js.data(), 1, js.size(), fp) != js.size()) die("short write");
  if (std::fclose(fp) != 0) die("close failed");
  return 0;
}
