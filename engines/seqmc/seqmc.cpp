// Engine B: explicit-state breadth-first search over the REAL index
// (unodb::db / mutex_db / olc_db), run to the fixpoint per key universe.
// State identity = physical dump of the tree (addresses abstracted away).
// Serves C01 (ordered-map behaviour), C02 (scans), C10 (shape / statistics /
// accounting), C08 (strong exception guarantee, assertion-enabled build) and
// C16 (configuration matrix: transcript hash).  See DESIGN.md section 3.
#include "global.hpp"

#include <fcntl.h>
#include <sys/mman.h>
#include <unistd.h>

#include <algorithm>
#include <array>
#include <cstdint>
#include <cstdio>
#include <cstring>
#include <deque>
#include <functional>
#include <map>
#include <memory>
#include <optional>
#include <set>
#include <sstream>
#include <stdexcept>
#include <string>
#include <unordered_map>
#include <vector>

#include "art.hpp"
#include "mutex_art.hpp"
#include "olc_art.hpp"
#include "qsbr.hpp"

#include "../common/jsonw.hpp"
#include "../common/treewalk.hpp"

// ---------------------------------------------------------------------------
// allocation accounting through the verification hooks
namespace vacct {
std::map<std::uintptr_t, std::size_t> live;
std::uint64_t live_bytes = 0;
std::uint64_t allocs = 0;
bool double_free = false;
}  // namespace vacct

extern "C" {
void unodb_verif_point(unsigned, const volatile void*, unsigned, std::uint64_t) noexcept {}
void unodb_verif_spin() noexcept {
  // a single thread never has to wait: a spin means a lock was left behind
  static unsigned long spins = 0;
  if (++spins > 1000000UL) {
    std::fprintf(stderr, "FATAL: single-threaded operation spins forever (lock left behind)\n");
    std::_Exit(45);
  }
}
void unodb_verif_alloc(void* p, std::size_t n) noexcept {
  vacct::live[reinterpret_cast<std::uintptr_t>(p)] = n;
  vacct::live_bytes += n;
  ++vacct::allocs;
}
void unodb_verif_free(void* p) noexcept {
  auto it = vacct::live.find(reinterpret_cast<std::uintptr_t>(p));
  if (it == vacct::live.end()) {
    vacct::double_free = true;
    return;
  }
  vacct::live_bytes -= it->second;
  vacct::live.erase(it);
}
}

namespace {

using Bytes = std::string;

// the history being executed, kept in an mmap'd file so that a crash
// (sanitizer report, library assertion, signal) can be attributed to it
char* g_progress = nullptr;
constexpr std::size_t kProgressSize = 8192;
void progress_open(const std::string& path) {
  const int fd = ::open(path.c_str(), O_RDWR | O_CREAT | O_TRUNC, 0644);
  if (fd < 0 || ::ftruncate(fd, kProgressSize) != 0) std::_Exit(2);
  void* p = ::mmap(nullptr, kProgressSize, PROT_READ | PROT_WRITE, MAP_SHARED, fd, 0);
  if (p == MAP_FAILED) std::_Exit(2);
  g_progress = static_cast<char*>(p);
}
void progress_set(const std::string& s) {
  if (g_progress == nullptr) return;
  std::snprintf(g_progress, kProgressSize, "%s", s.c_str());
}
// marks the announced history with " SCAN" while the scan enumeration runs on it, so that a crash there is attributed to
// the scan property
struct ProgressScanMark {
  std::string saved;
  ProgressScanMark() {
    if (g_progress == nullptr) return;
    saved = g_progress;
    progress_set(saved + " SCAN");
  }
  ~ProgressScanMark() {
    if (g_progress != nullptr) progress_set(saved);
  }
};

Bytes from_hex(const std::string& h) {
  Bytes b;
  for (std::size_t i = 0; i + 1 < h.size(); i += 2) b += static_cast<char>(std::stoi(h.substr(i, 2), nullptr, 16));
  return b;
}
std::string to_hex(const Bytes& b) { return tw::hex(b); }

std::vector<std::string> split(const std::string& s, char c) {
  std::vector<std::string> out;
  if (s.empty()) return out;
  std::string cur;
  for (char ch : s) {
    if (ch == c) {
      out.push_back(cur);
      cur.clear();
    } else {
      cur += ch;
    }
  }
  out.push_back(cur);
  return out;
}

// ---------------------------------------------------------------------------
// universe
struct Universe {
  std::string id;
  std::vector<Bytes> base;   // always inserted first (by a fixed history)
  std::vector<Bytes> delta;  // keys the alphabet inserts / removes
  std::vector<Bytes> probes; // extra absent keys for get / scan bounds
  std::vector<std::size_t> vlens{0, 1, 9, 300};
  std::set<std::size_t> variant_keys;  // delta indices that have two value variants
};

Bytes value_for(const Universe& u, bool is_base, std::size_t idx, unsigned variant) {
  const std::size_t len = u.vlens[(idx + (is_base ? 1 : 0)) % u.vlens.size()];
  Bytes v(len, '\0');
  for (std::size_t i = 0; i < len; ++i) v[i] = static_cast<char>((is_base ? 0xB0 : 0xD0) + ((idx * 7 + i * 13 + variant * 101) & 0x0F));
  if (len > 0) v[0] = static_cast<char>((is_base ? 0x80 : 0x40) | (variant << 5) | (idx & 0x1F));
  return v;
}

// ---------------------------------------------------------------------------
// actions
enum AKind : char { A_INSERT = 'i', A_REMOVE = 'r', A_CLEAR = 'c' };
struct Action {
  AKind kind;
  std::uint16_t key = 0;    // delta index
  std::uint8_t variant = 0;
};
std::string action_str(const Action& a) {
  std::string s(1, static_cast<char>(a.kind));
  if (a.kind != A_CLEAR) s += std::to_string(a.key);
  if (a.kind == A_INSERT) s += "." + std::to_string(a.variant);
  return s;
}
std::string history_str(const std::vector<Action>& h) {
  std::string s;
  for (const auto& a : h) s += (s.empty() ? "" : ",") + action_str(a);
  return s.empty() ? "-" : s;
}
std::vector<Action> parse_history(std::string s) {
  std::vector<Action> h;
  for (const char* suffix : {" FAULT", " SCAN"}) {
    const auto fpos = s.find(suffix);
    if (fpos != std::string::npos) s = s.substr(0, fpos);
  }
  if (s == "-" || s.empty()) return h;
  for (const auto& t : split(s, ',')) {
    Action a{};
    a.kind = static_cast<AKind>(t[0]);
    if (a.kind != A_CLEAR) {
      const auto dot = t.find('.');
      a.key = static_cast<std::uint16_t>(std::stoul(t.substr(1, dot == std::string::npos ? std::string::npos : dot - 1)));
      if (dot != std::string::npos) a.variant = static_cast<std::uint8_t>(std::stoul(t.substr(dot + 1)));
    }
    h.push_back(a);
  }
  return h;
}

// ---------------------------------------------------------------------------
// index adapters
template <class Key>
struct KeyConv;
template <>
struct KeyConv<std::uint64_t> {
  static std::uint64_t make(const Bytes& b) {
    std::uint64_t k = 0;
    for (std::size_t i = 0; i < 8; ++i) k = (k << 8) | static_cast<unsigned char>(i < b.size() ? b[i] : 0);
    return k;
  }
};
template <>
struct KeyConv<unodb::key_view> {
  static unodb::key_view make(const Bytes& b) {
    return unodb::key_view{reinterpret_cast<const std::byte*>(b.data()), b.size()};
  }
};

template <class Db>
struct Adapter;

template <class Key>
struct Adapter<unodb::db<Key, unodb::value_view>> {
  using Db = unodb::db<Key, unodb::value_view>;
  using Inner = Db;
  static constexpr const char* name = "db";
  static Inner& inner(Db& d) { return d; }
  static std::optional<Bytes> get(Db& d, Key k, const std::byte** data = nullptr) {
    auto r = d.get(k);
    if (!r) return std::nullopt;
    if (data) *data = r->data();
    return Bytes(reinterpret_cast<const char*>(r->data()), r->size());
  }
  static bool lock_free_after(Db&) { return true; }
};
template <class Key>
struct Adapter<unodb::mutex_db<Key, unodb::value_view>> {
  using Db = unodb::mutex_db<Key, unodb::value_view>;
  using Inner = unodb::db<Key, unodb::value_view>;
  static constexpr const char* name = "mutex_db";
  static Inner& inner(Db& d) { return d.db_; }
  static bool last_get_ok;
  static std::optional<Bytes> get(Db& d, Key k, const std::byte** data = nullptr) {
    auto r = d.get(k);
    // C13 clause visible sequentially: a hit owns the lock, a miss does not
    last_get_ok = r.first.has_value() == r.second.owns_lock();
    if (!r.first) return std::nullopt;
    if (data) *data = r.first->data();
    return Bytes(reinterpret_cast<const char*>(r.first->data()), r.first->size());
  }
  static bool lock_free_after(Db& d) {
    if (!d.mutex.try_lock()) return false;
    d.mutex.unlock();
    return last_get_ok;
  }
};
template <class Key>
bool Adapter<unodb::mutex_db<Key, unodb::value_view>>::last_get_ok = true;

template <class Key>
struct Adapter<unodb::olc_db<Key, unodb::value_view>> {
  using Db = unodb::olc_db<Key, unodb::value_view>;
  using Inner = Db;
  static constexpr const char* name = "olc_db";
  static Inner& inner(Db& d) { return d; }
  static std::optional<Bytes> get(Db& d, Key k, const std::byte** data = nullptr) {
    auto r = d.get(k);
    if (!r) return std::nullopt;
    const std::byte* p = r->begin().get();
    if (data) *data = p;
    return Bytes(reinterpret_cast<const char*>(p), r->size());
  }
  static bool lock_free_after(Db& d) {
    if ((tw::root_lock_word(d) & 3U) != 0) return false;
    const tw::Tree t = tw::walk(d);
    for (const auto& n : t.nodes)
      if ((n.lockword & 3U) != 0) return false;
    return true;
  }
};

// ---------------------------------------------------------------------------
struct Violation {
  std::string property, signature, what, replay_arg;
};

struct Options {
  int scan_level = 1;  // 0 none, 1 full scans only, 2 complete bound set
  bool faults = false;
  bool views = true;
  bool simple_bounds = false;  // scan bounds = universe keys and probes only
  bool scan_before = false;    // run the scans on the object that is then mutated
  std::uint64_t max_states = 2000000;
  std::string transcript_path;
};

struct Stats {
  std::uint64_t states = 0, transitions = 0, replays = 0, evaluations = 0, scans = 0, fault_runs = 0, nontrivial = 0;
  std::uint64_t max_depth = 0, ref_states = 0, alloc_transitions = 0;
  bool exhaustive = true;
};

std::uint64_t fnv(std::uint64_t h, const std::string& s) {
  for (unsigned char c : s) {
    h ^= c;
    h *= 0x100000001b3ULL;
  }
  return h;
}

template <class Db, class Key>
struct Engine {
  using Ad = Adapter<Db>;
  using Inner = typename Ad::Inner;
  using RefMap = std::map<Bytes, Bytes>;

  Universe u;
  Options opt;
  Stats st;
  std::vector<Violation> violations;
  std::uint64_t violations_total = 0;
  std::vector<std::string> samples;
  std::uint64_t transcript = 0xcbf29ce484222325ULL;
  std::uint64_t counters_transcript = 0xcbf29ce484222325ULL, memory_transcript = 0xcbf29ce484222325ULL;
  std::vector<Bytes> bounds;  // scan bounds
  std::size_t node_sizes[5];
  std::set<std::string> seen_sigs;

  struct State {
    std::vector<Action> history;
    std::uint32_t depth;
  };
  // state identity: 128-bit hash of the physical dump
  struct Key128 {
    std::uint64_t a, b;
    bool operator==(const Key128& o) const { return a == o.a && b == o.b; }
  };
  struct Key128Hash {
    std::size_t operator()(const Key128& k) const { return static_cast<std::size_t>(k.a ^ (k.b * 0x9e3779b97f4a7c15ULL)); }
  };
  static Key128 key_of(const std::string& phys) {
    Key128 k{0xcbf29ce484222325ULL, 0x84222325cbf29ce4ULL};
    for (unsigned char c : phys) {
      k.a = (k.a ^ c) * 0x100000001b3ULL;
      k.b = (k.b + c + 0x9e3779b97f4a7c15ULL) * 0xff51afd7ed558ccdULL;
      k.b ^= k.b >> 29;
    }
    return k;
  }
  std::unordered_map<Key128, std::uint32_t, Key128Hash> ids;
  std::vector<State> states;
  std::set<std::string> ref_states;

  void violation(const std::string& prop, const std::string& sig, const std::string& what, const std::vector<Action>& h,
                 const std::string& extra = "") {
    ++violations_total;
    if (violations.size() < 20 && seen_sigs.insert(prop + sig).second) {
      Violation v;
      v.property = prop;
      v.signature = sig;
      v.what = what + " after history [" + history_str(h) + "]" + (extra.empty() ? "" : " " + extra);
      v.replay_arg = history_str(h);
      violations.push_back(v);
    }
  }

  // ---- reference model ----
  static void ref_apply(const Universe& u, RefMap& m, const Action& a, bool* result) {
    switch (a.kind) {
      case A_INSERT: {
        const Bytes& k = u.delta[a.key];
        const bool ok = m.find(k) == m.end();
        if (ok) m[k] = value_for(u, false, a.key, a.variant);
        if (result) *result = ok;
        break;
      }
      case A_REMOVE: {
        const bool ok = m.erase(u.delta[a.key]) != 0;
        if (result) *result = ok;
        break;
      }
      case A_CLEAR:
        m.clear();
        if (result) *result = true;
        break;
    }
  }
  RefMap ref_base() const {
    RefMap m;
    for (std::size_t i = 0; i < u.base.size(); ++i) m[u.base[i]] = value_for(u, true, i, 0);
    return m;
  }
  RefMap ref_of(const std::vector<Action>& h) const {
    RefMap m = ref_base();
    for (const auto& a : h) ref_apply(u, m, a, nullptr);
    return m;
  }

  // ---- real object ----
  bool apply_real(Db& d, const Action& a) {
    switch (a.kind) {
      case A_INSERT: {
        const Bytes v = value_for(u, false, a.key, a.variant);
        return d.insert(KeyConv<Key>::make(u.delta[a.key]),
                        unodb::value_view{reinterpret_cast<const std::byte*>(v.data()), v.size()});
      }
      case A_REMOVE:
        return d.remove(KeyConv<Key>::make(u.delta[a.key]));
      case A_CLEAR:
        d.clear();
        return true;
    }
    return false;
  }

  std::unique_ptr<Db> build(const std::vector<Action>& h) {
    auto d = std::make_unique<Db>();
    for (std::size_t i = 0; i < u.base.size(); ++i) {
      const Bytes v = value_for(u, true, i, 0);
      if (!d->insert(KeyConv<Key>::make(u.base[i]),
                     unodb::value_view{reinterpret_cast<const std::byte*>(v.data()), v.size()})) {
        std::fprintf(stderr, "base insert failed (duplicate base key?)\n");
        std::_Exit(2);
      }
    }
    for (const auto& a : h) apply_real(*d, a);
    ++st.replays;
    return d;
  }

  // ---- oracles on a quiescent object ----
  struct Snapshot {
    std::string phys, logical;
    std::uint64_t mem = 0;
    std::array<std::uint64_t, 5> node_counts{};
    std::array<std::uint64_t, 4> growing{}, shrinking{};
    std::uint64_t live_bytes = 0;
    std::uint64_t canon_counts[5] = {0, 0, 0, 0, 0};
    bool has_inode = false;
  };

  Snapshot snapshot(Db& d, const RefMap& ref, const std::vector<Action>& h) {
    Snapshot s;
    const tw::Tree t = tw::walk(Ad::inner(d));
    s.phys = tw::phys_dump(t);
    s.logical = tw::logical_dump(t);
    for (const auto& n : t.nodes)
      if (n.type != 0) s.has_inode = true;
    // C01: the content of the tree is the reference content
    RefMap content;
    tw::content(t, content);
    if (content != ref) violation("C01", "C01/content", "stored entries differ from the reference map", h);
    // C10: canonical shape
    std::vector<std::pair<Bytes, Bytes>> kv(ref.begin(), ref.end());
    std::uint64_t bytes = 0;
    std::string canon = "~";
    if (!kv.empty()) {
      canon.clear();
      tw::canonical(kv, 0, kv.size(), 0, canon, s.canon_counts, &bytes, node_sizes, node_sizes[0]);
    }
    if (s.logical != canon)
      violation("C10", "C10/shape", "tree shape is not the canonical path-compressed radix tree of the key set: got " +
                                        s.logical.substr(0, 300) + " want " + canon.substr(0, 300), h);
#ifdef UNODB_DETAIL_WITH_STATS
    s.mem = d.get_current_memory_use();
    const auto nc = d.get_node_counts();
    for (std::size_t i = 0; i < 5; ++i) s.node_counts[i] = nc[i];
    const auto g = d.get_growing_inode_counts();
    const auto sh = d.get_shrinking_inode_counts();
    for (std::size_t i = 0; i < 4; ++i) {
      s.growing[i] = g[i];
      s.shrinking[i] = sh[i];
    }
    bool ok = s.mem == bytes;
    for (std::size_t i = 0; i < 5; ++i) ok = ok && s.node_counts[i] == s.canon_counts[i];
    if (!ok) {
      std::ostringstream os;
      os << "reported node counts / memory use differ from the canonical tree: reported mem=" << s.mem << " want " << bytes
         << " counts=";
      for (std::size_t i = 0; i < 5; ++i) os << s.node_counts[i] << "/" << s.canon_counts[i] << " ";
      violation("C10", "C10/stats", os.str(), h);
    }
    s.live_bytes = vacct::live_bytes;
    if (vacct::live_bytes != s.mem) {
      std::ostringstream os;
      os << "bytes held from the allocator (" << vacct::live_bytes << ") differ from the reported memory use (" << s.mem << ")";
      violation("C10", "C10/held-bytes", os.str(), h);
    }
#endif
    if (d.empty() != ref.empty()) violation("C01", "C01/empty", "empty() disagrees with the reference map", h);
    if (!Ad::lock_free_after(d)) violation("C13", "C13/lock-held", "a lock is held although no operation is in flight", h);
    if (vacct::double_free) violation("C10", "C10/double-free", "a block was freed twice", h);
    return s;
  }

  // ---- scans ----
  struct ScanOut {
    std::vector<std::pair<Bytes, Bytes>> seq;
    unsigned calls_after_halt = 0;
  };

  template <class Call>
  ScanOut run_scan(Call&& call, int halt_after) {
    ScanOut out;
    bool halted = false;
    auto fn = [&](const auto& v) {
      if (halted) {
        ++out.calls_after_halt;
        return true;
      }
      const auto kv = v.get_key();
      const auto vv = v.get_value();
      Bytes kb(reinterpret_cast<const char*>(kv.data()), kv.size());
      Bytes vb;
      if constexpr (std::is_same_v<std::remove_cvref_t<decltype(vv)>, unodb::value_view>) {
        vb.assign(reinterpret_cast<const char*>(vv.data()), vv.size());
      } else {
        vb.assign(reinterpret_cast<const char*>(vv.begin().get()), vv.size());
      }
      out.seq.emplace_back(kb, vb);
      if (halt_after >= 0 && static_cast<int>(out.seq.size()) >= halt_after) {
        halted = true;
        return true;
      }
      return false;
    };
    call(fn);
    ++st.scans;
    return out;
  }

  static std::vector<std::pair<Bytes, Bytes>> expect_scan(const RefMap& ref, int mode, const Bytes& b1, const Bytes& b2,
                                                          bool fwd, int halt_after) {
    // mode 0: full, 1: from b1, 2: range [b1,b2) / (b2,b1]
    std::vector<std::pair<Bytes, Bytes>> all(ref.begin(), ref.end());
    std::vector<std::pair<Bytes, Bytes>> sel;
    if (mode == 2) {
      if (b1 == b2) return sel;
      fwd = b1 < b2;
    }
    for (const auto& e : all) {
      bool in = true;
      if (mode == 1) in = fwd ? e.first >= b1 : e.first <= b1;
      if (mode == 2) in = fwd ? (e.first >= b1 && e.first < b2) : (e.first <= b1 && e.first > b2);
      if (in) sel.push_back(e);
    }
    if (!fwd) std::reverse(sel.begin(), sel.end());
    // a visitor that halts at its n-th call has been called n times (n >= 1)
    if (halt_after >= 0) {
      const std::size_t n = static_cast<std::size_t>(std::max(halt_after, 1));
      if (sel.size() > n) sel.resize(n);
    }
    return sel;
  }

  void check_scan(const ScanOut& got, const std::vector<std::pair<Bytes, Bytes>>& want, const std::string& desc,
                  const std::vector<Action>& h) {
    ++st.evaluations;
    if (opt.transcript_path.size()) {
      for (const auto& e : got.seq) transcript = fnv(fnv(transcript, e.first), e.second);
      transcript = fnv(transcript, "|");
    }
    if (got.calls_after_halt != 0) {
      violation("C02", "C02/called-after-halt", "visitor called again after it returned true: " + desc, h);
      return;
    }
    if (got.seq != want) {
      std::ostringstream os;
      os << desc << " visited " << got.seq.size() << " entries [";
      for (std::size_t i = 0; i < got.seq.size() && i < 6; ++i) os << to_hex(got.seq[i].first) << " ";
      os << "] expected " << want.size() << " [";
      for (std::size_t i = 0; i < want.size() && i < 6; ++i) os << to_hex(want[i].first) << " ";
      os << "]";
      violation("C02", "C02/" + desc.substr(0, desc.find('(')), os.str(), h);
    }
  }

  void all_scans(Db& d, const RefMap& ref, const std::vector<Action>& h) {
    if (opt.scan_level == 0) return;
    const ProgressScanMark mark;
    const int n = static_cast<int>(ref.size());
    std::vector<int> halts{-1};
    if (opt.scan_level >= 2) {
      if (n <= 12)
        for (int j = 1; j <= n; ++j) halts.push_back(j);
      else
        for (int j : {1, 2, n - 1, n}) halts.push_back(j);
    }
    for (int fwd = 1; fwd >= 0; --fwd)
      for (int hh : halts) {
        const auto got = run_scan([&](auto& fn) { d.scan(fn, fwd != 0); }, hh);
        check_scan(got, expect_scan(ref, 0, {}, {}, fwd != 0, hh), std::string("scan") + (fwd ? "-fwd" : "-rev") + "(halt=" + std::to_string(hh) + ")", h);
      }
    if (opt.scan_level < 2) return;
    for (const auto& b : bounds) {
      const auto kb = KeyConv<Key>::make(b);
      for (int fwd = 1; fwd >= 0; --fwd) {
        for (int hh : {-1, 1, 2}) {
          if (hh > n) continue;
          const auto got = run_scan([&](auto& fn) { d.scan_from(kb, fn, fwd != 0); }, hh);
          check_scan(got, expect_scan(ref, 1, b, {}, fwd != 0, hh),
                     std::string("scan_from") + (fwd ? "-fwd" : "-rev") + "(" + to_hex(b) + ",halt=" + std::to_string(hh) + ")", h);
        }
      }
    }
    // ranges over a reduced bound set: every third bound plus the universe keys
    std::vector<Bytes> rb;
    for (std::size_t i = 0; i < bounds.size(); i += 3) rb.push_back(bounds[i]);
    for (const auto& k : u.delta) rb.push_back(k);
    if (!u.base.empty()) {
      rb.push_back(u.base.front());
      rb.push_back(u.base.back());
    }
    std::sort(rb.begin(), rb.end());
    rb.erase(std::unique(rb.begin(), rb.end()), rb.end());
    for (const auto& b1 : rb)
      for (const auto& b2 : rb) {
        // two copies of each bound, so that both address orders of the
        // caller's buffers are exercised for byte-string keys
        const Bytes c1a = b1, c2a = b2;
        const Bytes c2b = b2, c1b = b1;
        for (int order = 0; order < (std::is_same_v<Key, unodb::key_view> ? 2 : 1); ++order) {
          const Bytes& x1 = order == 0 ? c1a : c1b;
          const Bytes& x2 = order == 0 ? c2a : c2b;
          for (int hh : {-1, 1}) {
            if (hh > n) continue;
            const auto got = run_scan([&](auto& fn) { d.scan_range(KeyConv<Key>::make(x1), KeyConv<Key>::make(x2), fn); }, hh);
            check_scan(got, expect_scan(ref, 2, b1, b2, true, hh),
                       std::string("scan_range") + "(" + to_hex(b1) + "," + to_hex(b2) + ",halt=" + std::to_string(hh) + ")", h);
          }
        }
      }
  }

  // ---- gets ----
  void all_gets(Db& d, const RefMap& ref, const std::vector<Action>& h) {
    auto probe = [&](const Bytes& k) {
      const auto r = Ad::get(d, KeyConv<Key>::make(k));
      ++st.evaluations;
      auto it = ref.find(k);
      if (opt.transcript_path.size()) transcript = fnv(transcript, r ? "1" + *r : std::string("0"));
      if (r.has_value() != (it != ref.end()))
        violation("C01", r ? "C01/get-phantom" : "C01/get-lost", std::string("get(") + to_hex(k) + ") " + (r ? "found an absent key" : "did not find a present key"), h);
      else if (r && *r != it->second)
        violation("C01", "C01/get-value", "get(" + to_hex(k) + ") returned other bytes than the creating insert supplied", h);
      if (!Ad::lock_free_after(d)) violation("C13", "C13/get-lock", "mutex ownership after get(" + to_hex(k) + ") is wrong (hit must own the lock, miss must not)", h);
    };
    for (const auto& k : u.base) probe(k);
    for (const auto& k : u.delta) probe(k);
    for (const auto& k : u.probes) probe(k);
  }

  // ---- prediction of the growing / shrinking counters (C10) ----
  void check_counter_delta(const Snapshot& before, const Snapshot& after, const Action& a, bool result,
                           const std::vector<Action>& h) {
#ifdef UNODB_DETAIL_WITH_STATS
    std::array<std::int64_t, 4> eg{}, es{};
    if (a.kind != A_CLEAR && result) {
      std::int64_t tot_b = 0, tot_a = 0;
      for (int i = 1; i < 5; ++i) {
        tot_b += static_cast<std::int64_t>(before.canon_counts[i]);
        tot_a += static_cast<std::int64_t>(after.canon_counts[i]);
      }
      if (a.kind == A_INSERT) {
        if (tot_a == tot_b + 1) eg[0] = 1;  // a new I4
        else
          for (int c = 2; c < 5; ++c)
            if (after.canon_counts[c] == before.canon_counts[c] + 1) eg[static_cast<std::size_t>(c - 1)] = 1;
      } else {
        if (tot_a == tot_b - 1) es[0] = 1;  // a two-child I4 dissolved
        else
          for (int c = 2; c < 5; ++c)
            if (after.canon_counts[c] + 1 == before.canon_counts[c]) es[static_cast<std::size_t>(c - 1)] = 1;
      }
    }
    bool ok = true;
    for (std::size_t i = 0; i < 4; ++i) {
      ok = ok && static_cast<std::int64_t>(after.growing[i]) - static_cast<std::int64_t>(before.growing[i]) == eg[i];
      ok = ok && static_cast<std::int64_t>(after.shrinking[i]) - static_cast<std::int64_t>(before.shrinking[i]) == es[i];
    }
    if (!ok) {
      std::ostringstream os;
      os << "growing/shrinking counters moved by g=[";
      for (std::size_t i = 0; i < 4; ++i) os << (static_cast<std::int64_t>(after.growing[i]) - static_cast<std::int64_t>(before.growing[i])) << " ";
      os << "] s=[";
      for (std::size_t i = 0; i < 4; ++i) os << (static_cast<std::int64_t>(after.shrinking[i]) - static_cast<std::int64_t>(before.shrinking[i])) << " ";
      os << "] expected g=[";
      for (std::size_t i = 0; i < 4; ++i) os << eg[i] << " ";
      os << "] s=[";
      for (std::size_t i = 0; i < 4; ++i) os << es[i] << " ";
      os << "] on " << action_str(a);
      violation("C10", "C10/grow-shrink-counters", os.str(), h);
    }
#else
    (void)before;
    (void)after;
    (void)a;
    (void)result;
    (void)h;
#endif
  }

  // ---- one transition, all oracles ----
  // returns the physical dump of the successor
  std::string transition(const std::vector<Action>& h, const RefMap& ref, const Action& a, const Snapshot& before) {
    {
      std::vector<Action> hh = h;
      hh.push_back(a);
      progress_set(history_str(hh));
    }
    auto d = build(h);
    // views obtained before the operation
    struct View {
      Bytes key;
      const std::byte* p;
      Bytes expect;
    };
    std::vector<View> views;
    if (opt.views)
      for (const auto& e : ref) {
        const std::byte* p = nullptr;
        const auto r = Ad::get(*d, KeyConv<Key>::make(e.first), &p);
        if (r) views.push_back(View{e.first, p, *r});
      }
    if (opt.scan_before) all_scans(*d, ref, h);
    RefMap ref2 = ref;
    bool want = false;
    ref_apply(u, ref2, a, &want);
    const std::uint64_t allocs_before = vacct::allocs;
    const bool got = apply_real(*d, a);
    if (vacct::allocs != allocs_before) ++st.alloc_transitions;
    ++st.transitions;
    ++st.evaluations;
    std::vector<Action> h2 = h;
    h2.push_back(a);
    if (opt.transcript_path.size()) transcript = fnv(transcript, action_str(a) + (got ? "+" : "-"));
    if (got != want)
      violation("C01", std::string("C01/") + (a.kind == A_INSERT ? "insert" : "remove") + "-result",
                action_str(a) + " returned " + (got ? "true" : "false") + " but the reference map says " + (want ? "true" : "false"), h2);
    // views of entries that still exist must be readable and unchanged
    for (const auto& v : views) {
      auto it = ref2.find(v.key);
      if (it == ref2.end() || it->second != v.expect) continue;
      if (a.kind == A_REMOVE && u.delta[a.key] == v.key) continue;
      const Bytes now(reinterpret_cast<const char*>(v.p), v.expect.size());
      if (now != v.expect) violation("C01", "C01/view-changed", "a value view obtained earlier changed although its entry still exists (key " + to_hex(v.key) + ")", h2);
    }
    const Snapshot after = snapshot(*d, ref2, h2);
    check_counter_delta(before, after, a, got, h2);
    if (opt.transcript_path.size()) {
      transcript = fnv(transcript, after.logical);
      std::string cs;
      for (std::size_t i = 0; i < 5; ++i) cs += std::to_string(after.node_counts[i]) + ",";
      for (std::size_t i = 0; i < 4; ++i) cs += std::to_string(after.growing[i]) + "," + std::to_string(after.shrinking[i]) + ",";
      counters_transcript = fnv(counters_transcript, cs);
      memory_transcript = fnv(memory_transcript, std::to_string(after.mem));
    }
    d.reset();
    if (vacct::live_bytes != 0) violation("C10", "C10/not-returned", "memory still held after the index was destroyed", h2);
    return after.phys;
  }

  // ---- fault enumeration (C08): assertion-enabled builds only ----
  void faults(const std::vector<Action>& h, const RefMap& ref, const Action& a) {
#ifndef NDEBUG
    // count the allocations of the unarmed operation
    std::uint64_t nalloc = 0;
    {
      auto d = build(h);
      const auto before = vacct::allocs;
      apply_real(*d, a);
      nalloc = vacct::allocs - before;
    }
    for (std::uint64_t k = 1; k <= nalloc; ++k) {
      {
        std::vector<Action> hh = h;
        hh.push_back(a);
        progress_set(history_str(hh) + " FAULT " + std::to_string(k));
      }
      auto d = build(h);
      const Snapshot s0 = snapshot(*d, ref, h);
      const auto fwd0 = run_scan([&](auto& fn) { d->scan(fn, true); }, -1);
      const auto rev0 = run_scan([&](auto& fn) { d->scan(fn, false); }, -1);
      const auto live0 = vacct::live;
      unodb::test::allocation_failure_injector::reset();
      unodb::test::allocation_failure_injector::fail_on_nth_allocation(k);
      bool threw = false, wrong_exc = false;
      try {
        (void)apply_real(*d, a);
      } catch (const std::bad_alloc&) {
        threw = true;
      } catch (...) {
        wrong_exc = true;
      }
      unodb::test::allocation_failure_injector::reset();
      ++st.fault_runs;
      ++st.evaluations;
      std::vector<Action> h2 = h;
      h2.push_back(a);
      const std::string tag = " (allocation " + std::to_string(k) + " of " + std::to_string(nalloc) + " failed)";
      if (wrong_exc) violation("C08", "C08/wrong-exception", action_str(a) + " threw something else than std::bad_alloc" + tag, h2);
      if (!threw && !wrong_exc) violation("C08", "C08/no-exception", action_str(a) + " swallowed the injected allocation failure" + tag, h2);
      if (!Ad::lock_free_after(*d)) {
        violation("C14", "C14/lock-left-after-throw", action_str(a) + " left a lock held after throwing" + tag, h2);
        continue;  // the comparisons below would spin
      }
      const Snapshot s1 = snapshot(*d, ref, h);
      const auto fwd1 = run_scan([&](auto& fn) { d->scan(fn, true); }, -1);
      const auto rev1 = run_scan([&](auto& fn) { d->scan(fn, false); }, -1);
      if (s1.phys != s0.phys) violation("C08", "C08/tree-changed", "the tree changed although " + action_str(a) + " failed" + tag, h2);
      if (fwd1.seq != fwd0.seq || rev1.seq != rev0.seq) violation("C08", "C08/scan-changed", "scan output changed although " + action_str(a) + " failed" + tag, h2);
      if (s1.mem != s0.mem || s1.node_counts != s0.node_counts || s1.growing != s0.growing || s1.shrinking != s0.shrinking)
        violation("C08", "C08/stats-changed", "statistics changed although " + action_str(a) + " failed" + tag, h2);
      if (vacct::live != live0) violation("C08", "C08/leak", "the set of live allocations changed although " + action_str(a) + " failed" + tag, h2);
      // the retry without the fault gives the normal result
      RefMap ref2 = ref;
      bool want = false;
      ref_apply(u, ref2, a, &want);
      bool got = false;
      try {
        got = apply_real(*d, a);
      } catch (...) {
        violation("C08", "C08/retry-throws", "the unarmed retry of " + action_str(a) + " threw" + tag, h2);
        continue;
      }
      if (got != want) violation("C08", "C08/retry-result", "the unarmed retry of " + action_str(a) + " returned the wrong result" + tag, h2);
      const Snapshot s2 = snapshot(*d, ref2, h2);
      (void)s2;
    }
#else
    (void)h;
    (void)ref;
    (void)a;
#endif
  }

  // ---- alphabet ----
  std::vector<Action> alphabet() const {
    std::vector<Action> al;
    for (std::size_t i = 0; i < u.delta.size(); ++i) {
      al.push_back(Action{A_INSERT, static_cast<std::uint16_t>(i), 0});
      if (u.variant_keys.count(i)) al.push_back(Action{A_INSERT, static_cast<std::uint16_t>(i), 1});
      al.push_back(Action{A_REMOVE, static_cast<std::uint16_t>(i), 0});
    }
    al.push_back(Action{A_CLEAR, 0, 0});
    return al;
  }

  void make_bounds() {
    std::set<Bytes> b;
    if (opt.simple_bounds) {
      for (const auto& k : u.base) b.insert(k);
      for (const auto& k : u.delta) b.insert(k);
      for (const auto& k : u.probes) b.insert(k);
      bounds.assign(b.begin(), b.end());
      return;
    }
    auto add_neighbours = [&](const Bytes& k) {
      b.insert(k);
      // +-1 as a big-endian integer of the same length
      Bytes up = k, dn = k;
      for (std::size_t i = up.size(); i-- > 0;) {
        up[i] = static_cast<char>(static_cast<unsigned char>(up[i]) + 1);
        if (up[i] != 0) break;
      }
      for (std::size_t i = dn.size(); i-- > 0;) {
        dn[i] = static_cast<char>(static_cast<unsigned char>(dn[i]) - 1);
        if (static_cast<unsigned char>(dn[i]) != 0xFF) break;
      }
      if (up > k) b.insert(up);
      if (dn < k) b.insert(dn);
      // every byte position forced low / high with the tail zeroed / filled
      for (std::size_t i = 0; i < k.size(); ++i) {
        Bytes lo = k, hi = k;
        for (std::size_t j = i; j < k.size(); ++j) {
          lo[j] = 0;
          hi[j] = static_cast<char>(0xFF);
        }
        b.insert(lo);
        b.insert(hi);
      }
    };
    for (const auto& k : u.delta) add_neighbours(k);
    for (const auto& k : u.probes) b.insert(k);
    if (!u.base.empty()) {
      add_neighbours(u.base.front());
      add_neighbours(u.base.back());
      add_neighbours(u.base[u.base.size() / 2]);
    }
    bounds.assign(b.begin(), b.end());
  }

  // ---- the search ----
  void per_state_checks(const std::vector<Action>& h, const RefMap& ref, Snapshot* snap_out) {
    progress_set(history_str(h));
    auto d = build(h);
    Snapshot s = snapshot(*d, ref, h);
    all_gets(*d, ref, h);
    all_scans(*d, ref, h);
    // the observers must not have changed anything
    const tw::Tree t = tw::walk(Ad::inner(*d));
    if (tw::phys_dump(t) != s.phys) violation("C01", "C01/observer-mutates", "get/scan/empty changed the tree", h);
    if (snap_out) *snap_out = s;
    d.reset();
    if (vacct::live_bytes != 0) violation("C10", "C10/not-returned", "memory still held after the index was destroyed", h);
  }

  void search() {
    make_bounds();
    const auto al = alphabet();
    std::deque<std::uint32_t> queue;
    {
      auto d = build({});
      const tw::Tree t = tw::walk(Ad::inner(*d));
      ids[key_of(tw::phys_dump(t))] = 0;
      states.push_back(State{{}, 0});
      queue.push_back(0);
    }
    while (!queue.empty()) {
      const std::uint32_t id = queue.front();
      queue.pop_front();
      const std::vector<Action> h = states[id].history;  // copy: states may grow
      const RefMap ref = ref_of(h);
      ref_states.insert(LinSer(ref));
      Snapshot snap;
      per_state_checks(h, ref, &snap);
      ++st.states;
      if (snap.has_inode) ++st.nontrivial;
      st.max_depth = std::max<std::uint64_t>(st.max_depth, h.size());
      if (samples.size() < 3 && h.size() >= 3 && snap.has_inode) samples.push_back("history [" + history_str(h) + "] -> " + snap.logical.substr(0, 400));
      for (const auto& a : al) {
        const std::string succ = transition(h, ref, a, snap);
        if (opt.faults) faults(h, ref, a);
        auto it = ids.find(key_of(succ));
        if (it == ids.end()) {
          if (states.size() >= opt.max_states) {
            st.exhaustive = false;
            continue;
          }
          const auto nid = static_cast<std::uint32_t>(states.size());
          if (std::getenv("SEQMC_DUMP") != nullptr) std::fprintf(stderr, "STATE %u [%s] %s\n", nid, history_str(h).c_str(), succ.c_str());
          ids.emplace(key_of(succ), nid);
          std::vector<Action> h2 = h;
          h2.push_back(a);
          states.push_back(State{h2, static_cast<std::uint32_t>(h2.size())});
          queue.push_back(nid);
        }
      }
      if (violations_total > 500) {
        st.exhaustive = false;
        break;
      }
    }
    st.ref_states = ref_states.size();
  }

  static std::string LinSer(const RefMap& m) {
    std::string s;
    for (const auto& e : m) s += e.first + "=" + e.second + ";";
    return s;
  }

  // replay one history with every oracle at every step
  void replay(const std::vector<Action>& h) {
    make_bounds();
    std::vector<Action> pre;
    for (std::size_t i = 0; i <= h.size(); ++i) {
      const RefMap ref = ref_of(pre);
      Snapshot snap;
      per_state_checks(pre, ref, &snap);
      ++st.states;
      if (i == h.size()) break;
      transition(pre, ref, h[i], snap);
      if (opt.faults) faults(pre, ref, h[i]);
      pre.push_back(h[i]);
    }
  }
};

template <class Db, class Key>
int run(const Universe& u, const Options& opt, const std::string& out_path, const std::string& replay_arg, bool have_replay,
        const char* index_name, const char* key_name) {
  Engine<Db, Key> e;
  e.u = u;
  e.opt = opt;
  using Inner = typename Adapter<Db>::Inner;
  using policy = typename Inner::art_policy;
  e.node_sizes[0] = sizeof(typename policy::leaf_type) - 1;
  e.node_sizes[1] = sizeof(typename policy::inode4_type);
  e.node_sizes[2] = sizeof(typename policy::inode16_type);
  e.node_sizes[3] = sizeof(typename policy::inode48_type);
  e.node_sizes[4] = sizeof(typename policy::inode256_type);
  if (have_replay) e.replay(parse_history(replay_arg));
  else e.search();

  jsonw::Obj o;
  o.str("property", "C01");
  o.str("universe", u.id);
  o.str("index", index_name);
  o.str("key", key_name);
  o.boolean("exhaustive", e.st.exhaustive && !have_replay);
  o.num("evaluations", e.st.evaluations);
  o.num("distinct_nontrivial", e.st.nontrivial);
  o.num("states", e.st.states);
  o.num("transitions", e.st.transitions);
  o.num("traces_validated_against_impl", e.st.replays);
  o.num("reference_states", e.st.ref_states);
  o.num("scans", e.st.scans);
  o.num("fault_runs", e.st.fault_runs);
  o.num("allocating_transitions", e.st.alloc_transitions);
  o.num("max_depth", e.st.max_depth);
  o.num("scan_bounds", e.bounds.size());
  char th[32];
  std::snprintf(th, sizeof th, "%016llx", static_cast<unsigned long long>(e.transcript));
  o.str("transcript", th);
  std::snprintf(th, sizeof th, "%016llx", static_cast<unsigned long long>(e.counters_transcript));
  o.str("counters_transcript", th);
  std::snprintf(th, sizeof th, "%016llx", static_cast<unsigned long long>(e.memory_transcript));
  o.str("memory_transcript", th);
#ifdef UNODB_DETAIL_WITH_STATS
  o.boolean("with_stats", true);
#else
  o.boolean("with_stats", false);
#endif
#ifdef NDEBUG
  o.boolean("assertions", false);
#else
  o.boolean("assertions", true);
#endif
  o.str("rule",
        "breadth-first search to the fixpoint over implementation states (physical tree dump) of the real index under the "
        "alphabet {insert(k,v), remove(k) | k in delta} + {clear}, every transition executed on a fresh real object reached by "
        "replaying the shortest history; non-trivial = implementation states with at least one inner node");
  {
    jsonw::Arr a;
    for (const auto& s : e.samples) a.str(s);
    o.raw("samples", a.done());
  }
  {
    jsonw::Arr a;
    jsonw::Obj p;
    p.str("name", u.id + "/" + index_name + "/" + key_name);
    p.num("size", e.st.states);
    p.num("checks", e.st.evaluations);
    p.boolean("exhaustive", e.st.exhaustive && !have_replay);
    a.raw(p.done());
    o.raw("parts", a.done());
  }
  {
    jsonw::Arr a;
    for (const auto& v : e.violations) {
      jsonw::Obj vo;
      vo.str("property", v.property);
      vo.str("signature", v.signature);
      vo.str("what", v.what);
      vo.str("replay_arg", v.replay_arg);
      a.raw(vo.done());
    }
    o.raw("violations", a.done());
  }
  o.num("violations_total", e.violations_total);
  const std::string js = o.done();
  FILE* f = out_path == "/dev/stdout" ? stdout : std::fopen(out_path.c_str(), "w");
  if (!f) return 2;
  std::fputs(js.c_str(), f);
  std::fflush(f);
  if (f != stdout) std::fclose(f);
  return 0;
}

}  // namespace

int main(int argc, char** argv) {
  Universe u;
  Options opt;
  std::string index = "db", key = "u64", out_path = "/dev/stdout", replay_arg;
  bool have_replay = false;
  for (int i = 1; i < argc; ++i) {
    const std::string a = argv[i];
    auto next = [&]() -> std::string {
      if (i + 1 >= argc) std::exit(2);
      return argv[++i];
    };
    if (a == "--id") u.id = next();
    else if (a == "--index") index = next();
    else if (a == "--key") key = next();
    else if (a == "--base") for (const auto& h : split(next(), ',')) u.base.push_back(from_hex(h));
    else if (a == "--delta") for (const auto& h : split(next(), ',')) u.delta.push_back(from_hex(h));
    else if (a == "--probes") for (const auto& h : split(next(), ',')) u.probes.push_back(from_hex(h));
    else if (a == "--vlens") {
      u.vlens.clear();
      for (const auto& h : split(next(), ',')) u.vlens.push_back(std::stoul(h));
    } else if (a == "--variants") for (const auto& h : split(next(), ',')) u.variant_keys.insert(std::stoul(h));
    else if (a == "--scans") opt.scan_level = std::stoi(next());
    else if (a == "--faults") opt.faults = std::stoi(next()) != 0;
    else if (a == "--views") opt.views = std::stoi(next()) != 0;
    else if (a == "--simple-bounds") opt.simple_bounds = std::stoi(next()) != 0;
    else if (a == "--scan-before") opt.scan_before = std::stoi(next()) != 0;
    else if (a == "--max-states") opt.max_states = std::stoull(next());
    else if (a == "--transcript") opt.transcript_path = next();
    else if (a == "--progress") progress_open(next());
    else if (a == "--full-prefix-word") tw::g_full_prefix_word = std::stoi(next()) != 0;
    else if (a == "--out") out_path = next();
    else if (a == "--tier" || a == "--threads") next();
    else if (a == "--replay-arg") {
      replay_arg = next();
      have_replay = true;
    } else {
      std::fprintf(stderr, "unknown arg %s\n", a.c_str());
      return 2;
    }
  }
  using VV = unodb::value_view;
  int rc = 2;
#if defined(SEQMC_ONLY_DB)
  if (index != "db") return 2;
#elif defined(SEQMC_ONLY_MUTEX)
  if (index != "mutex") return 2;
#elif defined(SEQMC_ONLY_OLC)
  if (index != "olc") return 2;
#endif
  const bool u64 = key == "u64";
#if !defined(SEQMC_ONLY_MUTEX) && !defined(SEQMC_ONLY_OLC)
  if (index == "db")
    rc = u64 ? run<unodb::db<std::uint64_t, VV>, std::uint64_t>(u, opt, out_path, replay_arg, have_replay, "db", "u64")
             : run<unodb::db<unodb::key_view, VV>, unodb::key_view>(u, opt, out_path, replay_arg, have_replay, "db", "kv");
#endif
#if !defined(SEQMC_ONLY_DB) && !defined(SEQMC_ONLY_OLC)
  if (index == "mutex")
    rc = u64 ? run<unodb::mutex_db<std::uint64_t, VV>, std::uint64_t>(u, opt, out_path, replay_arg, have_replay, "mutex_db", "u64")
             : run<unodb::mutex_db<unodb::key_view, VV>, unodb::key_view>(u, opt, out_path, replay_arg, have_replay, "mutex_db", "kv");
#endif
#if !defined(SEQMC_ONLY_DB) && !defined(SEQMC_ONLY_MUTEX)
  if (index == "olc")
    rc = u64 ? run<unodb::olc_db<std::uint64_t, VV>, std::uint64_t>(u, opt, out_path, replay_arg, have_replay, "olc_db", "u64")
             : run<unodb::olc_db<unodb::key_view, VV>, unodb::key_view>(u, opt, out_path, replay_arg, have_replay, "olc_db", "kv");
#endif
  std::fflush(stdout);
  std::_Exit(rc);
}
