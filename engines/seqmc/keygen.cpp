// Prints the hex of keys built with the real unodb::key_encoder.
// Input: one key per argument, components separated by '+':
//   u8:N u16:N u32:N u64:N i8:N i16:N i32:N i64:N f:VALUE d:VALUE t:TEXT
#include "global.hpp"

#include <cstdint>
#include <cstdio>
#include <cstdlib>
#include <cstring>
#include <string>
#include <string_view>

#include "art_common.hpp"

int main(int argc, char** argv) {
  for (int i = 1; i < argc; ++i) {
    unodb::key_encoder enc;
    std::string spec = argv[i];
    std::size_t pos = 0;
    while (pos <= spec.size()) {
      std::size_t end = spec.find('+', pos);
      if (end == std::string::npos) end = spec.size();
      const std::string c = spec.substr(pos, end - pos);
      pos = end + 1;
      const auto colon = c.find(':');
      const std::string ty = c.substr(0, colon), val = c.substr(colon + 1);
      if (ty == "u8") enc.encode(static_cast<std::uint8_t>(std::stoull(val)));
      else if (ty == "u16") enc.encode(static_cast<std::uint16_t>(std::stoull(val)));
      else if (ty == "u32") enc.encode(static_cast<std::uint32_t>(std::stoull(val)));
      else if (ty == "u64") enc.encode(static_cast<std::uint64_t>(std::stoull(val)));
      else if (ty == "i8") enc.encode(static_cast<std::int8_t>(std::stoll(val)));
      else if (ty == "i16") enc.encode(static_cast<std::int16_t>(std::stoll(val)));
      else if (ty == "i32") enc.encode(static_cast<std::int32_t>(std::stoll(val)));
      else if (ty == "i64") enc.encode(static_cast<std::int64_t>(std::stoll(val)));
      else if (ty == "f") enc.encode(std::stof(val));
      else if (ty == "d") enc.encode(std::stod(val));
      else if (ty == "t") enc.encode_text(std::string_view{val});
      else return 2;
      if (end == spec.size()) break;
    }
    const auto kv = enc.get_key_view();
    for (std::size_t j = 0; j < kv.size(); ++j) std::printf("%02x", static_cast<unsigned>(kv[j]));
    std::printf("\n");
  }
  return 0;
}
