// C08, QSBR part and size limits: for each operation that may throw, count the
// allocations it performs, then fail exactly the k-th one for every k and
// require that the exception reaches the caller and nothing observable
// changed; over-long keys / values must be rejected with std::length_error.
// Assertion-enabled build only (the library's injector exists only there).
#include "global.hpp"

#include <sys/mman.h>

#include <atomic>
#include <cstdint>
#include <cstdio>
#include <cstdlib>
#include <cstring>
#include <map>
#include <new>
#include <set>
#include <stdexcept>
#include <string>
#include <vector>

#include "art.hpp"
#include "heap.hpp"
#include "mutex_art.hpp"
#include "olc_art.hpp"
#include "qsbr.hpp"
#include "test_heap.hpp"

#include "../common/jsonw.hpp"

#ifdef NDEBUG
#error "qsbr_fault.cpp needs an assertion-enabled build"
#endif

// ---------------------------------------------------------------------------
// harness-defined operator new: goes through the library's injector and keeps
// the set of live blocks of the main thread's phase under test
namespace track {
thread_local bool on = false;
thread_local std::uint64_t count = 0;
std::set<void*>* live = nullptr;  // only touched by the main thread
bool in_track = false;
}  // namespace track

void* operator new(std::size_t n) {
  // the bookkeeping's own allocations bypass the injector
  if (!track::in_track) unodb::test::allocation_failure_injector::maybe_fail();
  void* p = std::malloc(n ? n : 1);
  if (p == nullptr) throw std::bad_alloc{};
  if (track::on && !track::in_track) {
    ++track::count;
    track::in_track = true;
    track::live->insert(p);
    track::in_track = false;
  }
  return p;
}
void operator delete(void* p) noexcept {
  if (track::on && !track::in_track && p != nullptr) {
    track::in_track = true;
    track::live->erase(p);
    track::in_track = false;
  }
  std::free(p);
}
void operator delete(void* p, std::size_t) noexcept { operator delete(p); }

extern "C" {
void unodb_verif_point(unsigned, const volatile void*, unsigned, std::uint64_t) noexcept {}
void unodb_verif_spin() noexcept {}
void unodb_verif_alloc(void* p, std::size_t) noexcept {
  if (track::on && !track::in_track) {
    ++track::count;
    track::in_track = true;
    track::live->insert(p);
    track::in_track = false;
  }
}
void verif_watch_free(void* p) noexcept;
void unodb_verif_free(void* p) noexcept {
  verif_watch_free(p);
  if (track::on && !track::in_track) {
    track::in_track = true;
    track::live->erase(p);
    track::in_track = false;
  }
}
}

std::map<void*, int>* g_watch_ptr = nullptr;
void verif_watch_free(void* p) noexcept {
  if (g_watch_ptr == nullptr || track::in_track) return;
  const auto it = g_watch_ptr->find(p);
  if (it != g_watch_ptr->end()) ++it->second;
}

namespace {

using inj = unodb::test::allocation_failure_injector;

struct Violation {
  std::string signature, what, replay_arg;
};
std::vector<Violation> g_violations;
std::uint64_t g_evals = 0, g_fault_runs = 0, g_states = 0, g_transitions = 0;
std::vector<std::string> g_samples;
std::vector<std::string> g_parts;

void violation(const std::string& sig, const std::string& what, const std::string& replay) {
  g_violations.push_back({sig, what, replay});
}

std::uint32_t thread_count() { return unodb::qsbr_state::get_thread_count(unodb::qsbr::instance().state.load()); }

struct Tracking {
  std::set<void*> live;
  Tracking() {
    track::live = &live;
    track::count = 0;
    track::on = true;
  }
  ~Tracking() { track::on = false; }
};

// ---- 1. qsbr_resume -------------------------------------------------------
void part_resume(const std::string& only) {
  auto& me = unodb::this_thread();
  me.qsbr_pause();
  std::uint64_t n = 0;
  {
    Tracking t;
    me.qsbr_resume();
    n = track::count;
  }
  me.qsbr_pause();
  ++g_states;
  for (std::uint64_t k = 1; k <= n; ++k) {
    const std::string id = "resume:" + std::to_string(k);
    if (!only.empty() && only != id) continue;
    Tracking t;
    const auto live0 = t.live;
    inj::reset();
    inj::fail_on_nth_allocation(k);
    bool threw = false;
    try {
      me.qsbr_resume();
    } catch (const std::bad_alloc&) {
      threw = true;
    }
    inj::reset();
    ++g_fault_runs;
    ++g_evals;
    ++g_transitions;
    if (!threw) {
      violation("C08/qsbr-resume/no-exception", "qsbr_resume swallowed the failure of allocation " + std::to_string(k), id);
      me.qsbr_pause();
      continue;
    }
    if (!me.is_qsbr_paused() || thread_count() != 0)
      violation("C08/qsbr-resume/state-changed", "after a failed qsbr_resume (allocation " + std::to_string(k) + ") the thread is not paused any more or the thread count changed", id);
    // the retry without the fault succeeds
    try {
      me.qsbr_resume();
    } catch (...) {
      violation("C08/qsbr-resume/retry-throws", "qsbr_resume throws without a fault after a failed attempt", id);
      continue;
    }
    if (me.is_qsbr_paused() || thread_count() != 1) violation("C08/qsbr-resume/retry-wrong", "retry of qsbr_resume did not register the thread", id);
    me.qsbr_pause();
    // nothing leaked: a block the failed attempt may have kept inside the per-thread object (it stays owned, that is no
    // leak) has been released by now, exactly as after an undisturbed resume + pause
    if (t.live != live0) violation("C08/qsbr-resume/leak", "a failed qsbr_resume (allocation " + std::to_string(k) + ") followed by a successful resume and a pause leaves memory behind", id);
  }
  me.qsbr_resume();
  g_parts.push_back("qsbr_resume: " + std::to_string(n) + " allocations, every one failed once");
  if (g_samples.size() < 3) g_samples.push_back("qsbr_resume with allocation k of " + std::to_string(n) + " failing, k=1.." + std::to_string(n));
}

// ---- 2. qsbr_thread construction ------------------------------------------
void part_thread(const std::string& only) {
  std::uint64_t n = 0;
  {
    Tracking t;
    unodb::qsbr_thread th{[]() noexcept {}};
    n = track::count;
    track::on = false;
    th.join();
  }
  ++g_states;
  for (std::uint64_t k = 1; k <= n; ++k) {
    const std::string id = "thread:" + std::to_string(k);
    if (!only.empty() && only != id) continue;
    Tracking t;
    const auto live0 = t.live;
    inj::reset();
    inj::fail_on_nth_allocation(k);
    bool threw = false;
    unodb::qsbr_thread th;
    try {
      th = unodb::qsbr_thread{[]() noexcept {}};
    } catch (const std::bad_alloc&) {
      threw = true;
    }
    inj::reset();
    ++g_fault_runs;
    ++g_evals;
    ++g_transitions;
    if (!threw) {
      track::on = false;
      violation("C08/qsbr-thread/no-exception", "qsbr_thread construction swallowed the failure of allocation " + std::to_string(k), id);
      if (th.joinable()) th.join();
      continue;
    }
    if (thread_count() != 1) violation("C08/qsbr-thread/state-changed", "after a failed qsbr_thread construction (allocation " + std::to_string(k) + ") the registered-thread count is " + std::to_string(thread_count()) + " instead of 1", id);
    if (t.live != live0) violation("C08/qsbr-thread/leak", "a failed qsbr_thread construction (allocation " + std::to_string(k) + ") leaked memory", id);
    track::on = false;
    std::atomic<std::uint32_t> seen{0};
    try {
      unodb::qsbr_thread th2{[&seen]() noexcept { seen = thread_count(); }};
      th2.join();
    } catch (...) {
      violation("C08/qsbr-thread/retry-throws", "qsbr_thread construction throws without a fault after a failed attempt", id);
      continue;
    }
    if (seen != 2) violation("C08/qsbr-thread/retry-wrong", "the thread started by the retry did not see two registered threads", id);
  }
  g_parts.push_back("qsbr_thread construction: " + std::to_string(n) + " allocations in the creating thread, every one failed once");
  if (g_samples.size() < 3) g_samples.push_back("qsbr_thread{fn} with allocation k of " + std::to_string(n) + " failing");
}

// ---- 3. deferred deallocation request with two registered threads ----------
void part_dealloc(const std::string& only) {
  std::atomic<int> stage{0};
  unodb::qsbr_thread second{[&stage] {
    stage = 1;
    while (stage.load() != 2) {
    }
    unodb::this_thread().quiescent();
  }};
  while (stage.load() != 1) {
  }
  auto& me = unodb::this_thread();
  auto request = [&me](void* p) {
    me.on_next_epoch_deallocate(p
#ifdef UNODB_DETAIL_WITH_STATS
                                ,
                                64
#endif
                                ,
                                nullptr);
  };
  // count on a scratch pointer
  std::uint64_t n = 0;
  {
    void* p0 = unodb::detail::allocate_aligned(64);
    // the first request of an interval allocates vector storage; measure with
    // failures 1..4 until one attempt passes, which also gives n
    for (std::uint64_t k = 1; k <= 8; ++k) {
      inj::reset();
      inj::fail_on_nth_allocation(k);
      bool threw = false;
      const auto before = me.current_interval_dealloc_requests.size();
      Tracking t;
      const auto live0 = t.live;
      try {
        request(p0);
      } catch (const std::bad_alloc&) {
        threw = true;
      }
      track::on = false;
      inj::reset();
      const std::string id = "dealloc:" + std::to_string(k);
      if (!threw) {
        n = k - 1;
        break;
      }
      if (!only.empty() && only != id) continue;
      ++g_fault_runs;
      ++g_evals;
      ++g_transitions;
      if (me.current_interval_dealloc_requests.size() != before || !me.previous_interval_dealloc_requests.empty())
        violation("C08/qsbr-dealloc/state-changed", "a failed deferred-deallocation request (allocation " + std::to_string(k) + ") was recorded nevertheless", id);
      if (t.live != live0) violation("C08/qsbr-dealloc/leak", "a failed deferred-deallocation request (allocation " + std::to_string(k) + ") leaked memory or freed the pointer", id);
      // the memory is still the caller's: it must be readable and writable
      std::memset(p0, 0x5A, 64);
    }
  }
  ++g_states;
  stage = 2;
  second.join();
  me.quiescent();
  me.quiescent();
  if (!me.current_interval_dealloc_requests.empty() || !me.previous_interval_dealloc_requests.empty())
    violation("C08/qsbr-dealloc/pending", "the request accepted by the retry was not executed after the other thread left and two quiescent states", "dealloc:0");
  g_parts.push_back("on_next_epoch_deallocate with two registered threads: " + std::to_string(n) + " allocation(s), every one failed once");
  if (g_samples.size() < 3) g_samples.push_back("on_next_epoch_deallocate(p) with the vector growth failing, second thread registered and not quiescent");
}

// ---- 3b. deferred deallocation request from every small QSBR history ---------------------------------------------------
// The requesting thread and a second registered thread driven in lock step; history alphabet: R = request by this thread,
// M = this thread quiesces, O = the other thread quiesces. After each history (all of them up to the depth bound) one more
// request is made with its k-th allocation failing, for every k: the per-thread QSBR state, the global state word, the
// orphan lists and the set of live blocks must be what they were, the pointer must not have been freed; the retry is
// accepted; after the other thread left and two quiescent states every accepted pointer has been freed exactly once.

struct ThreadSnap {
  std::size_t prev, cur, cur_bytes;
  std::uint64_t q_since, state;
  unodb::qsbr_epoch seen, seen_q;
  void *orph_prev, *orph_cur;
  std::vector<void*> prev_ptrs, cur_ptrs;
  bool operator==(const ThreadSnap& o) const {
    return prev == o.prev && cur == o.cur && cur_bytes == o.cur_bytes && q_since == o.q_since && state == o.state &&
           seen == o.seen && seen_q == o.seen_q && orph_prev == o.orph_prev && orph_cur == o.orph_cur && prev_ptrs == o.prev_ptrs &&
           cur_ptrs == o.cur_ptrs;
  }
};

ThreadSnap snap_thread() {
  auto& me = unodb::this_thread();
  auto& q = unodb::qsbr::instance();
  ThreadSnap s{me.previous_interval_dealloc_requests.size(), me.current_interval_dealloc_requests.size(),
#ifdef UNODB_DETAIL_WITH_STATS
               me.current_interval_total_dealloc_size,
#else
               0,
#endif
               me.quiescent_states_since_epoch_change, q.state.load(), me.last_seen_epoch, me.last_seen_quiescent_state_epoch,
               q.orphaned_previous_interval_dealloc_requests.load(), q.orphaned_current_interval_dealloc_requests.load(), {}, {}};
  for (const auto& r : me.previous_interval_dealloc_requests) s.prev_ptrs.push_back(r.pointer);
  for (const auto& r : me.current_interval_dealloc_requests) s.cur_ptrs.push_back(r.pointer);
  return s;
}

void part_dealloc_histories(const std::string& only, unsigned depth) {
  std::vector<std::string> hist{""};
  for (std::size_t i = 0; i < hist.size(); ++i) {
    if (hist[i].size() >= depth) continue;
    for (const char c : {'R', 'M', 'O'}) hist.push_back(hist[i] + c);
  }
  std::uint64_t faulted = 0, new_epoch_path = 0;
  auto& me = unodb::this_thread();
  for (const auto& h : hist) {
    if (!only.empty() && only.rfind("dealloch:" + h + ":", 0) != 0) continue;
    std::map<void*, int> watch;
    std::vector<void*> accepted;
    g_watch_ptr = &watch;
    std::atomic<int> cmd{0}, ack{0};
    unodb::qsbr_thread second{[&cmd, &ack] {
      int done = 0;
      ack = -1;
      while (true) {
        const int c = cmd.load();
        if (c == done) continue;
        if (c < 0) break;
        unodb::this_thread().quiescent();
        done = c;
        ack = c;
      }
    }};
    while (ack.load() != -1) {
    }
    int cmds = 0;
    const auto request = [&me](void* p) {
      me.on_next_epoch_deallocate(p
#ifdef UNODB_DETAIL_WITH_STATS
                                  ,
                                  64
#endif
                                  ,
                                  nullptr);
    };
    const auto fresh = [&watch] {
      void* p = unodb::detail::allocate_aligned(64);
      watch[p] = 0;
      return p;
    };
    for (const char c : h) {
      if (c == 'R') {
        void* p = fresh();
        request(p);
        accepted.push_back(p);
      } else if (c == 'M') {
        me.quiescent();
      } else {
        cmd = ++cmds;
        while (ack.load() != cmds) {
        }
      }
    }
    ++g_states;
    // the faulted request
    void* const p = fresh();
    const bool epoch_moved = me.last_seen_epoch != unodb::qsbr_state::get_epoch(unodb::qsbr::instance().state.load());
    std::uint64_t n = 0;
    for (std::uint64_t k = 1; k <= 8; ++k) {
      const std::string id = "dealloch:" + h + ":" + std::to_string(k);
      const auto before = snap_thread();
      const auto frees_before = watch;
      inj::reset();
      inj::fail_on_nth_allocation(k);
      bool threw = false;
      {
        Tracking t;
        const auto live0 = t.live;
        try {
          request(p);
        } catch (const std::bad_alloc&) {
          threw = true;
        }
        track::on = false;
        inj::reset();
        if (threw && t.live != live0)
          violation("C08/qsbr-dealloc-history/leak", "after history '" + h + "' a failed deferred-deallocation request (allocation " + std::to_string(k) + ") changed the set of live blocks", id);
      }
      if (!threw) {
        n = k - 1;
        accepted.push_back(p);
        break;
      }
      ++g_fault_runs;
      ++g_evals;
      ++g_transitions;
      ++faulted;
      if (epoch_moved) ++new_epoch_path;
      if (!(snap_thread() == before))
        violation("C08/qsbr-dealloc-history/state-changed", "after history '" + h + "' a failed deferred-deallocation request (allocation " + std::to_string(k) + ") changed the QSBR state of the thread (pending requests, interval accounting or epochs seen)", id);
      if (watch != frees_before)
        violation("C08/qsbr-dealloc-history/freed", "after history '" + h + "' a failed deferred-deallocation request (allocation " + std::to_string(k) + ") executed pending requests", id);
      std::memset(p, 0x5A, 64);  // still the caller's
    }
    (void)n;
    cmd = -1;
    second.join();
    me.quiescent();
    me.quiescent();
    if (!me.current_interval_dealloc_requests.empty() || !me.previous_interval_dealloc_requests.empty())
      violation("C08/qsbr-dealloc-history/pending", "after history '" + h + "' requests are still pending after the other thread left and two quiescent states", "dealloch:" + h + ":0");
    for (void* a : accepted)
      if (watch[a] != 1)
        violation("C08/qsbr-dealloc-history/not-once", "after history '" + h + "' an accepted pointer was freed " + std::to_string(watch[a]) + " times", "dealloch:" + h + ":0");
    g_watch_ptr = nullptr;
    if (thread_count() != 1) {
      violation("C08/qsbr/state-changed", "QSBR is not back in its idle state after history '" + h + "'", "dealloch:" + h + ":0");
      break;
    }
  }
  g_parts.push_back("on_next_epoch_deallocate after every history over {request, own quiescent state, other thread's quiescent state} up to length " +
                    std::to_string(depth) + ": " + std::to_string(hist.size()) + " histories, " + std::to_string(faulted) +
                    " faulted requests (" + std::to_string(new_epoch_path) + " of them first requests after an epoch change)");
}

// ---- 4. size limits ---------------------------------------------------------
template <class Db>
void length_checks(const char* name, const std::string& only) {
  const std::size_t huge = (std::size_t{1} << 32U) + 16U;
  void* region = ::mmap(nullptr, huge, PROT_READ, MAP_PRIVATE | MAP_ANONYMOUS | MAP_NORESERVE, -1, 0);
  if (region == MAP_FAILED) {
    std::fprintf(stderr, "mmap failed\n");
    std::_Exit(2);
  }
  const auto* bytes = static_cast<const std::byte*>(region);
  {
    const std::string id = std::string("length-value:") + name;
    if (only.empty() || only == id) {
      Db db;
      const std::byte one[1] = {std::byte{1}};
      (void)db.insert(unodb::key_view{one, 1}, unodb::value_view{one, 1});
      Tracking t;
      const auto live0 = t.live;
      bool threw = false, other = false;
      const std::byte two[1] = {std::byte{2}};
      try {
        (void)db.insert(unodb::key_view{two, 1}, unodb::value_view{bytes, huge});
      } catch (const std::length_error&) {
        threw = true;
      } catch (...) {
        other = true;
      }
      track::on = false;
      ++g_evals;
      ++g_transitions;
      if (!threw || other) violation(std::string("C08/length/value-") + name, std::string("insert of a value longer than UINT32_MAX into ") + name + " did not throw std::length_error", id);
      if (t.live != live0) violation(std::string("C08/length/value-leak-") + name, "a rejected over-long value leaked memory", id);
      bool found = false;
      if constexpr (requires { db.get(unodb::key_view{}).has_value(); }) found = db.get(unodb::key_view{two, 1}).has_value();
      if (found) violation(std::string("C08/length/value-stored-") + name, "the rejected key is present", id);
      if (db.empty()) violation(std::string("C08/length/value-lost-") + name, "the index lost its content", id);
    }
  }
  {
    const std::string id = std::string("length-key:") + name;
    if (only.empty() || only == id) {
      Db db;
      Tracking t;
      const auto live0 = t.live;
      bool threw = false, other = false;
      const std::byte one[1] = {std::byte{1}};
      try {
        (void)db.insert(unodb::key_view{bytes, huge}, unodb::value_view{one, 1});
      } catch (const std::length_error&) {
        threw = true;
      } catch (...) {
        other = true;
      }
      track::on = false;
      ++g_evals;
      ++g_transitions;
      if (!threw || other) violation(std::string("C08/length/key-") + name, std::string("insert of a key longer than UINT32_MAX into ") + name + " did not throw std::length_error", id);
      if (t.live != live0) violation(std::string("C08/length/key-leak-") + name, "a rejected over-long key leaked memory", id);
      if (!db.empty()) violation(std::string("C08/length/key-stored-") + name, "the index is not empty after the rejected insert", id);
    }
  }
  ::munmap(region, huge);
  ++g_states;
}

}  // namespace

int main(int argc, char** argv) {
  std::string out_path = "/dev/stdout", only, tier = "quick";
  for (int i = 1; i < argc; ++i) {
    const std::string a = argv[i];
    if (a == "--out" && i + 1 < argc) out_path = argv[++i];
    else if (a == "--replay-arg" && i + 1 < argc) only = argv[++i];
    else if (a == "--tier" && i + 1 < argc) tier = argv[++i];
    else if ((a == "--threads" || a == "--progress") && i + 1 < argc) ++i;
  }
  const auto part_of = [&](const char* p) { return only.empty() || only.rfind(p, 0) == 0; };
  if (part_of("resume")) part_resume(only);
  if (part_of("thread")) part_thread(only);
  // the remaining parts (and the destructors of the OLC indexes they create) need QSBR back in its idle state; a failed
  // operation that left a trace there has been reported above
  const bool qsbr_idle = thread_count() == 1 && !unodb::this_thread().is_qsbr_paused();
  if (!qsbr_idle && g_violations.empty())
    violation("C08/qsbr/state-changed", "QSBR is not back in its idle state (one registered thread) after the failed operations", "thread:0");
  if (qsbr_idle && part_of("dealloc") && !part_of("dealloch")) part_dealloc(only);
  if (qsbr_idle && only.empty()) part_dealloc(only);
  if (qsbr_idle && part_of("dealloch")) part_dealloc_histories(only, tier == "thorough" ? 9 : 6);
  if (qsbr_idle && thread_count() == 1 && part_of("length")) {
    length_checks<unodb::db<unodb::key_view, unodb::value_view>>("db", only);
    length_checks<unodb::olc_db<unodb::key_view, unodb::value_view>>("olc_db", only);
  }
  jsonw::Obj o;
  o.str("property", "C08");
  o.boolean("exhaustive", true);
  o.num("evaluations", g_evals);
  o.num("distinct_nontrivial", g_fault_runs);
  o.num("states", g_states);
  o.num("transitions", g_transitions);
  o.num("traces_validated_against_impl", g_evals);
  o.num("fault_runs", g_fault_runs);
  o.str("rule", "QSBR resume / thread start / deferred-deallocation request: the k-th allocation fails, for every k up to the measured number of allocations; inserts of keys and values longer than UINT32_MAX");
  {
    jsonw::Arr a;
    for (const auto& s : g_samples) a.str(s);
    o.raw("samples", a.done());
  }
  {
    jsonw::Arr a;
    for (const auto& s : g_parts) {
      jsonw::Obj p;
      p.str("name", s);
      p.num("size", 1);
      p.num("checks", 1);
      p.boolean("exhaustive", true);
      a.raw(p.done());
    }
    o.raw("parts", a.done());
  }
  {
    jsonw::Arr a;
    for (const auto& v : g_violations) {
      jsonw::Obj vo;
      vo.str("property", "C08");
      vo.str("signature", v.signature);
      vo.str("what", v.what);
      vo.str("replay_arg", v.replay_arg);
      a.raw(vo.done());
    }
    o.raw("violations", a.done());
  }
  o.num("violations_total", g_violations.size());
  const std::string js = o.done();
  FILE* f = out_path == "/dev/stdout" ? stdout : std::fopen(out_path.c_str(), "w");
  if (!f) return 2;
  std::fputs(js.c_str(), f);
  std::fflush(f);
  std::_Exit(0);
}
