// Minimal JSON writer.
#pragma once
#include <cstdint>
#include <cstdio>
#include <string>

namespace jsonw {

inline std::string quote(const std::string& s) {
  std::string r = "\"";
  for (unsigned char c : s) {
    switch (c) {
      case '"':
        r += "\\\"";
        break;
      case '\\':
        r += "\\\\";
        break;
      case '\n':
        r += "\\n";
        break;
      case '\t':
        r += "\\t";
        break;
      default:
        if (c < 0x20 || c >= 0x7f) {
          char b[8];
          std::snprintf(b, sizeof b, "\\u%04x", c);
          r += b;
        } else {
          r += static_cast<char>(c);
        }
    }
  }
  return r + "\"";
}

struct Obj {
  std::string s = "{";
  bool first = true;
  void key(const std::string& k) {
    if (!first) s += ",";
    first = false;
    s += quote(k) + ":";
  }
  void str(const std::string& k, const std::string& v) {
    key(k);
    s += quote(v);
  }
  template <class T>
  void num(const std::string& k, T v) {
    key(k);
    s += std::to_string(static_cast<unsigned long long>(v));
  }
  void boolean(const std::string& k, bool v) {
    key(k);
    s += v ? "true" : "false";
  }
  void raw(const std::string& k, const std::string& v) {
    key(k);
    s += v;
  }
  std::string done() const { return s + "}"; }
};

struct Arr {
  std::string s = "[";
  bool first = true;
  void raw(const std::string& v) {
    if (!first) s += ",";
    first = false;
    s += v;
  }
  void str(const std::string& v) { raw(quote(v)); }
  std::string done() const { return s + "]"; }
};

}  // namespace jsonw
