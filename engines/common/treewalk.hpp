// Raw (hook-free, lock-free) walker over the physical representation of
// unodb::db / unodb::olc_db, used by oracles and by engine B's state identity.
// Requires -fno-access-control.
#pragma once

#include <algorithm>
#include <cstdint>
#include <cstring>
#include <map>
#include <string>
#include <vector>

#include "art.hpp"
#include "olc_art.hpp"

namespace tw {

template <class T>
inline T rd(const unodb::in_critical_section<T>& x) {
  return x.value.load(std::memory_order_relaxed);
}
template <class T>
inline T rd(const unodb::in_fake_critical_section<T>& x) {
  return x.value;
}
inline unodb::detail::node_ptr rd(const unodb::detail::node_ptr& x) {
  return x;
}

inline std::uint64_t lock_word(const unodb::detail::olc_node_header* h) {
  return h->m_lock.version.version.load(std::memory_order_relaxed);
}
inline std::uint64_t lock_word(const unodb::detail::node_header*) { return 0; }

inline std::uint64_t root_lock_word(
    const unodb::olc_db<std::uint64_t, unodb::value_view>& db) {
  return db.root_pointer_lock.version.version.load(std::memory_order_relaxed);
}
inline std::uint64_t root_lock_word(
    const unodb::olc_db<unodb::key_view, unodb::value_view>& db) {
  return db.root_pointer_lock.version.version.load(std::memory_order_relaxed);
}
template <class Db>
inline std::uint64_t root_lock_word(const Db&) {
  return 0;
}

struct TNode {
  int type = 0;  // unodb::node_type as int: LEAF=0, I4, I16, I48, I256
  std::uintptr_t addr = 0;
  std::size_t bytes = 0;
  std::uint64_t prefix_word = 0;
  unsigned prefix_len = 0;
  std::uint64_t lockword = 0;
  std::vector<std::pair<std::uint8_t, int>> kids;  // (key byte, node index)
  std::string key, val;                            // leaf
  std::string phys;  // representation details beyond the logical content
};

struct Tree {
  std::vector<TNode> nodes;
  int root = -1;
  bool truncated_at_write_lock = false;
};

template <class Db>
struct Walker {
  using policy = typename Db::art_policy;
  using node_ptr = typename policy::node_ptr;
  using leaf_type = typename policy::leaf_type;
  using inode_type = unodb::detail::basic_inode_impl<policy>;
  using i4 = typename policy::inode4_type;
  using i16 = typename policy::inode16_type;
  using i48 = typename policy::inode48_type;
  using i256 = typename policy::inode256_type;

  bool stop_below_write_locked = false;
  Tree t;

  // write-locked or obsolete: the subtree below is being restructured
  static bool is_write_locked(std::uint64_t w) { return (w & 3U) != 0U; }

  int visit(node_ptr np) {
    const int idx = static_cast<int>(t.nodes.size());
    t.nodes.emplace_back();
    const auto type = np.type();
    const auto* hdr = np.template ptr<typename policy::header_type*>();
    {
      TNode& n = t.nodes[static_cast<std::size_t>(idx)];
      n.type = static_cast<int>(type);
      n.addr = reinterpret_cast<std::uintptr_t>(hdr);
      n.lockword = lock_word(hdr);
    }
    if (type == unodb::node_type::LEAF) {
      const auto* leaf = np.template ptr<leaf_type*>();
      TNode& n = t.nodes[static_cast<std::size_t>(idx)];
      const auto kv = leaf->get_key_view();
      const auto vv = leaf->get_value_view();
      n.key.assign(reinterpret_cast<const char*>(kv.data()), kv.size());
      n.val.assign(reinterpret_cast<const char*>(vv.data()), vv.size());
      n.bytes = leaf_type::compute_size(
          static_cast<typename leaf_type::key_size_type>(kv.size()),
          static_cast<typename leaf_type::value_size_type>(vv.size()));
      return idx;
    }
    if (stop_below_write_locked &&
        is_write_locked(t.nodes[static_cast<std::size_t>(idx)].lockword)) {
      t.truncated_at_write_lock = true;
      t.nodes[static_cast<std::size_t>(idx)].phys = "WL";
      return idx;
    }
    const auto* in = np.template ptr<inode_type*>();
    const std::uint64_t pw = rd(in->k_prefix.u64);
    const unsigned cnt_raw = rd(in->children_count);
    std::vector<std::pair<std::uint8_t, node_ptr>> kids;
    std::string phys;
    std::size_t bytes = 0;
    switch (type) {
      case unodb::node_type::I4: {
        const auto* n4 = static_cast<const i4*>(in);
        bytes = sizeof(i4);
        for (unsigned i = 0; i < cnt_raw && i < 4; ++i)
          kids.emplace_back(static_cast<std::uint8_t>(rd(n4->keys.byte_array[i])),
                            rd(n4->children[i]));
        break;
      }
      case unodb::node_type::I16: {
        const auto* n16 = static_cast<const i16*>(in);
        bytes = sizeof(i16);
        for (unsigned i = 0; i < cnt_raw && i < 16; ++i)
          kids.emplace_back(
              static_cast<std::uint8_t>(rd(n16->keys.byte_array[i])),
              rd(n16->children[i]));
        break;
      }
      case unodb::node_type::I48: {
        const auto* n48 = static_cast<const i48*>(in);
        bytes = sizeof(i48);
        phys = "m:";
        for (unsigned b = 0; b < 256; ++b) {
          const std::uint8_t slot = rd(n48->child_indexes[b]);
          if (slot == 0xFF) continue;
          phys += std::to_string(b) + ">" + std::to_string(slot) + ",";
          if (slot < 48)
            kids.emplace_back(static_cast<std::uint8_t>(b),
                              rd(n48->children.pointer_array[slot]));
        }
        phys += "o:";
        for (unsigned s = 0; s < 48; ++s)
          phys += (rd(n48->children.pointer_array[s]) == nullptr) ? '.' : 'x';
        break;
      }
      case unodb::node_type::I256: {
        const auto* n256 = static_cast<const i256*>(in);
        bytes = sizeof(i256);
        for (unsigned b = 0; b < 256; ++b) {
          const auto c = rd(n256->children[b]);
          if (c == nullptr) continue;
          kids.emplace_back(static_cast<std::uint8_t>(b), c);
        }
        break;
      }
      default:
        break;
    }
    {
      TNode& n = t.nodes[static_cast<std::size_t>(idx)];
      n.bytes = bytes;
      n.prefix_word = pw;
      n.prefix_len = static_cast<unsigned>(pw >> 56U);
      n.phys = phys + "c" + std::to_string(cnt_raw);
    }
    for (const auto& kc : kids) {
      int ci = -1;
      if (kc.second == nullptr) {
        ci = -1;
      } else {
        ci = visit(kc.second);
      }
      t.nodes[static_cast<std::size_t>(idx)].kids.emplace_back(kc.first, ci);
    }
    return idx;
  }

  Tree run(const Db& db) {
    t = Tree{};
    if (stop_below_write_locked && is_write_locked(root_lock_word(db))) {
      t.truncated_at_write_lock = true;
      return t;
    }
    const node_ptr r = rd(db.root);
    if (r == nullptr) return t;
    t.root = visit(r);
    return t;
  }
};

template <class Db>
inline Tree walk(const Db& db, bool stop_below_write_locked = false) {
  Walker<Db> w;
  w.stop_below_write_locked = stop_below_write_locked;
  return w.run(db);
}

inline std::string hex(const std::string& s) {
  static const char* d = "0123456789abcdef";
  std::string r;
  for (unsigned char c : s) {
    r += d[c >> 4];
    r += d[c & 15];
  }
  return r;
}

// The prefix word of an inner node holds up to 7 prefix bytes and, in its top
// byte, the prefix length.  Bytes at positions >= length are stale: they are
// never read (every reader clamps or masks by the length: shared_len,
// key_prefix_snapshot, operator[]) and never become live again (cut shifts
// them further out, the (len, source) constructor only shortens, prepend masks
// both operands by their lengths).  The state identity therefore keeps the
// live bytes only, unless g_full_prefix_word is set (used by one small
// thorough universe that cross-checks this argument).
inline bool g_full_prefix_word = false;

inline std::uint64_t live_prefix_word(std::uint64_t w) {
  if (g_full_prefix_word) return w;
  const unsigned len = static_cast<unsigned>(w >> 56U);
  if (len >= 7) return w;
  const std::uint64_t mask = (std::uint64_t{1} << (8U * len)) - 1U;
  return (w & mask) | (static_cast<std::uint64_t>(len) << 56U);
}

// physical dump: everything behaviour can depend on, addresses abstracted
inline void phys_dump(const Tree& t, int idx, std::string& out) {
  if (idx < 0) {
    out += "~";
    return;
  }
  const TNode& n = t.nodes[static_cast<std::size_t>(idx)];
  if (n.type == 0) {
    out += "L(" + hex(n.key) + "=" + hex(n.val) + ")";
    return;
  }
  static const char* names[] = {"L", "I4", "I16", "I48", "I256"};
  char buf[40];
  std::snprintf(buf, sizeof buf, "%s[%016llx;", names[n.type],
                static_cast<unsigned long long>(live_prefix_word(n.prefix_word)));
  out += buf;
  out += n.phys;
  out += ";";
  for (const auto& kc : n.kids) {
    std::snprintf(buf, sizeof buf, "%02x:", kc.first);
    out += buf;
    phys_dump(t, kc.second, out);
    out += ",";
  }
  out += "]";
}

inline std::string phys_dump(const Tree& t) {
  std::string s;
  phys_dump(t, t.root, s);
  return s;
}

// logical dump: class, live prefix bytes, sorted key bytes -> child
inline void logical_dump(const Tree& t, int idx, std::string& out) {
  if (idx < 0) {
    out += "~";
    return;
  }
  const TNode& n = t.nodes[static_cast<std::size_t>(idx)];
  if (n.type == 0) {
    out += "L(" + hex(n.key) + "=" + hex(n.val) + ")";
    return;
  }
  static const char* names[] = {"L", "I4", "I16", "I48", "I256"};
  out += names[n.type];
  out += "[";
  for (unsigned i = 0; i < n.prefix_len && i < 7; ++i) {
    char b[4];
    std::snprintf(b, sizeof b, "%02x",
                  static_cast<unsigned>((n.prefix_word >> (8 * i)) & 0xFF));
    out += b;
  }
  out += ";";
  auto kids = n.kids;
  std::sort(kids.begin(), kids.end());
  for (const auto& kc : kids) {
    char b[8];
    std::snprintf(b, sizeof b, "%02x:", kc.first);
    out += b;
    logical_dump(t, kc.second, out);
    out += ",";
  }
  out += "]";
}

inline std::string logical_dump(const Tree& t) {
  std::string s;
  logical_dump(t, t.root, s);
  return s;
}

inline void content(const Tree& t, std::map<std::string, std::string>& m) {
  for (const auto& n : t.nodes)
    if (n.type == 0) m[n.key] = n.val;
}

// Canonical path-compressed radix tree of a key set, rendered in the format
// of logical_dump.  Independent of the implementation: built from the sorted
// key list only.
inline void canonical(const std::vector<std::pair<std::string, std::string>>& kv,
                      std::size_t lo, std::size_t hi, std::size_t depth,
                      std::string& out,
                      std::uint64_t* counts /* [5] leaves,i4,i16,i48,i256 */,
                      std::uint64_t* bytes, const std::size_t* node_sizes,
                      std::size_t leaf_overhead) {
  if (hi - lo == 1) {
    out += "L(" + hex(kv[lo].first) + "=" + hex(kv[lo].second) + ")";
    counts[0]++;
    *bytes += leaf_overhead + kv[lo].first.size() + kv[lo].second.size();
    return;
  }
  // common prefix of kv[lo].first and kv[hi-1].first from depth
  const std::string& a = kv[lo].first;
  const std::string& b = kv[hi - 1].first;
  std::size_t cp = 0;
  while (depth + cp < a.size() && depth + cp < b.size() &&
         a[depth + cp] == b[depth + cp])
    ++cp;
  // distinct bytes at depth+cp
  std::vector<std::pair<unsigned char, std::pair<std::size_t, std::size_t>>> groups;
  std::size_t i = lo;
  while (i < hi) {
    const unsigned char c = static_cast<unsigned char>(kv[i].first[depth + cp]);
    std::size_t j = i;
    while (j < hi && static_cast<unsigned char>(kv[j].first[depth + cp]) == c) ++j;
    groups.push_back({c, {i, j}});
    i = j;
  }
  const std::size_t fan = groups.size();
  int cls = fan <= 4 ? 1 : fan <= 16 ? 2 : fan <= 48 ? 3 : 4;
  static const char* names[] = {"L", "I4", "I16", "I48", "I256"};
  counts[cls]++;
  *bytes += node_sizes[cls];
  out += names[cls];
  out += "[";
  // NOTE: the implementation caps the prefix at 7 bytes; callers keep cp <= 7
  for (std::size_t k = 0; k < cp; ++k) {
    char bb[4];
    std::snprintf(bb, sizeof bb, "%02x",
                  static_cast<unsigned>(static_cast<unsigned char>(a[depth + k])));
    out += bb;
  }
  out += ";";
  for (const auto& g : groups) {
    char bb[8];
    std::snprintf(bb, sizeof bb, "%02x:", g.first);
    out += bb;
    canonical(kv, g.second.first, g.second.second, depth + cp + 1, out, counts,
              bytes, node_sizes, leaf_overhead);
    out += ",";
  }
  out += "]";
}

}  // namespace tw
