// Engine A: cooperative scheduler + stateless, preemption-bounded explorer.
//
// Exactly one worker thread runs at any time; the baton is handed over with
// raw futex waits.  Workers enter the scheduler from the unodb verification
// hooks (unodb_verif_point / unodb_verif_spin / alloc / free) and from the
// harness (op boundaries, blocking waits).  See DESIGN.md section 2.
//
// This header is included by exactly one translation unit per runner.
#pragma once

#include <linux/futex.h>
#include <sys/mman.h>
#include <sys/syscall.h>
#include <unistd.h>

#include <atomic>
#include <cinttypes>
#include <ctime>
#include <climits>
#include <cstdint>
#include <cstdio>
#include <cstdlib>
#include <cstring>
#include <fcntl.h>
#include <functional>
#include <memory>
#include <string>
#include <thread>
#include <unordered_set>
#include <vector>

namespace vsched {

// ---------------------------------------------------------------------------
// hook kinds (mirror verif_hooks.hpp)
enum : unsigned {
  HK_LOCK_LOAD = 0,
  HK_LOCK_CAS = 1,
  HK_LOCK_STORE = 2,
  HK_DATA_LOAD = 3,
  HK_DATA_STORE = 4,
  HK_QSBR_LOAD = 5,
  HK_QSBR_RMW = 6,
  HK_QSBR_STORE = 7,
  HK_HARNESS_LOAD = 8,   // harness-level shared read
  HK_HARNESS_STORE = 9,  // harness-level shared write
  HK_MUTEX_LOCK = 10,
  HK_MUTEX_UNLOCK = 11,
};

enum PointKind : std::uint8_t {
  PK_START = 0,   // controller picks the first thread (cost 0)
  PK_ACCESS = 1,  // running thread about to access shared memory
  PK_YIELD = 2,   // spin-wait body: voluntary switch (cost 0)
  PK_BLOCK = 3,   // blocking wait (cost 0)
  PK_FINISH = 4,  // thread finished (cost 0)
};

struct PointRec {
  std::uint8_t thread;   // thread at the point (0xFF for PK_START)
  std::uint8_t pkind;    // PointKind
  std::uint8_t hkind;    // hook kind for PK_ACCESS
  std::uint8_t nopts;    // number of options (>= 2: only branching points)
  std::uint8_t chosen;   // option index taken
  std::uint8_t chosen_thread;
  std::uint16_t preempt_before;  // preemptions spent before this point
  std::uint32_t fp;  // closure mode: index into fingerprint list (or 0)
};

inline bool same_shape(const PointRec& a, const PointRec& b) {
  return a.thread == b.thread && a.pkind == b.pkind && a.nopts == b.nopts &&
         a.hkind == b.hkind;
}

// ---------------------------------------------------------------------------
// fatal verdicts end the process (threads cannot be unwound); the driver reads
// the progress file.
enum : int {
  EXIT_OK = 0,
  EXIT_DEADLOCK = 40,
  EXIT_LIVELOCK = 41,
  EXIT_DIVERGED = 42,
  EXIT_SANITIZER = 43,
  EXIT_ORACLE_FATAL = 44,
  EXIT_USAGE = 64,
};

struct Progress {  // lives in an mmap'd file so that it survives a crash
  char magic[8];
  std::uint64_t executions;
  std::uint64_t points;
  std::uint32_t verdict;  // 0 none, else exit code
  std::uint32_t nchoices;
  char what[256];
  char scenario[256];
  std::uint8_t choices[16384];
};

inline Progress* g_progress = nullptr;
inline Progress g_progress_dummy;

inline void progress_open(const char* path) {
  if (path == nullptr) {
    g_progress = &g_progress_dummy;
    return;
  }
  int fd = ::open(path, O_RDWR | O_CREAT | O_TRUNC, 0644);
  if (fd < 0 || ::ftruncate(fd, sizeof(Progress)) != 0) {
    std::perror("progress file");
    std::_Exit(EXIT_USAGE);
  }
  void* p = ::mmap(nullptr, sizeof(Progress), PROT_READ | PROT_WRITE,
                   MAP_SHARED, fd, 0);
  if (p == MAP_FAILED) {
    std::perror("mmap");
    std::_Exit(EXIT_USAGE);
  }
  g_progress = static_cast<Progress*>(p);
  std::memset(g_progress, 0, sizeof(Progress));
  std::memcpy(g_progress->magic, "VPROG01", 8);
}

// ---------------------------------------------------------------------------
inline long futex(std::atomic<int>* addr, int op, int val) {
  return ::syscall(SYS_futex, reinterpret_cast<int*>(addr), op, val, nullptr,
                   nullptr, 0);
}
// Hand-offs spin for a bounded number of iterations before sleeping in the
// kernel: a futex wake-up costs tens of microseconds, a spinning hand-off a
// fraction of one.  VSCHED_SPIN=0 disables spinning (use when the machine is
// oversubscribed).
inline unsigned g_spin_iters = [] {
  const char* e = std::getenv("VSCHED_SPIN");
  return e ? static_cast<unsigned>(std::strtoul(e, nullptr, 10)) : 0U;
}();
inline std::atomic<int> g_sleepers{0};

inline void futex_wait_while(std::atomic<int>& a, int v) {
  for (unsigned i = 0; i < g_spin_iters; ++i) {
    if (a.load(std::memory_order_acquire) != v) return;
    __builtin_ia32_pause();
  }
  while (a.load(std::memory_order_seq_cst) == v) {
    g_sleepers.fetch_add(1, std::memory_order_seq_cst);
    if (a.load(std::memory_order_seq_cst) == v) futex(&a, FUTEX_WAIT_PRIVATE, v);
    g_sleepers.fetch_sub(1, std::memory_order_seq_cst);
  }
}
inline void futex_set_wake(std::atomic<int>& a, int v) {
  a.store(v, std::memory_order_seq_cst);
  if (g_sleepers.load(std::memory_order_seq_cst) != 0)
    futex(&a, FUTEX_WAKE_PRIVATE, INT_MAX);
}

// ---------------------------------------------------------------------------
// Harness callbacks (oracles that need to see allocator traffic / accesses).
struct HarnessCallbacks {
  virtual ~HarnessCallbacks() = default;
  // tid == -1: not a scheduled worker (controller, prelude, epilogue)
  virtual void on_alloc(int /*tid*/, void* /*p*/, std::size_t /*n*/) {}
  virtual void on_free(int /*tid*/, void* /*p*/) {}
  virtual void on_access(int /*tid*/, unsigned /*hkind*/,
                         const volatile void* /*addr*/, unsigned /*size*/) {}
  // closure mode: fingerprint of the shared state + declared local states
  virtual std::uint64_t fingerprint() { return 0; }
};

struct Worker {
  int id = 0;
  std::atomic<int> go{0};
  bool started = false;
  bool finished = false;
  // yield bookkeeping
  bool parked_yield = false;
  std::uint64_t yield_seq = 0;       // write_seq when parked
  std::uint64_t last_yield_seq = 0;  // write_seq at the previous yield
  std::uint64_t acc_since_yield = 0;
  bool ever_yielded = false;
  std::uint64_t cycle_hash = 0;             // observations since the last yield
  std::uint64_t window_seq = 0;             // write_seq the list below belongs to
  std::vector<std::uint64_t> seen_cycles;   // cycle hashes seen in this window
  // blocking wait
  std::function<bool()> block_pred;
  // pending CAS/RMW settle
  const volatile void* prev_addr = nullptr;
  unsigned prev_size = 0;
  std::uint64_t prev_val = 0;
  // unpublished blocks (start, end)
  std::vector<std::pair<std::uintptr_t, std::uintptr_t>> priv;
  // lazily stamped invocation
  bool pending_invoke = false;
  // closure mode: hash of observations since the last declared boundary
  std::uint64_t obs_hash = 0;
  std::uint64_t local_state = 0;
};

inline thread_local Worker* tl_worker = nullptr;
inline thread_local int tl_passthru = 0;

struct PassThru {  // RAII: hooks pass through while harness/oracle code runs
  PassThru() { ++tl_passthru; }
  ~PassThru() { --tl_passthru; }
};

[[gnu::no_sanitize("address")]] inline std::uint64_t raw_read(
    const volatile void* addr, unsigned size) {
  std::uint64_t v = 0;
  switch (size) {
    case 1:
      v = *static_cast<const volatile std::uint8_t*>(addr);
      break;
    case 2:
      v = *static_cast<const volatile std::uint16_t*>(addr);
      break;
    case 4:
      v = *static_cast<const volatile std::uint32_t*>(addr);
      break;
    default:
      v = *static_cast<const volatile std::uint64_t*>(addr);
      break;
  }
  return v;
}

inline std::uint64_t mix(std::uint64_t h, std::uint64_t v) {
  h ^= v + 0x9e3779b97f4a7c15ULL + (h << 6) + (h >> 2);
  h *= 0xff51afd7ed558ccdULL;
  h ^= h >> 33;
  return h;
}

class Scheduler {
 public:
  static constexpr int kMaxThreads = 8;

  HarnessCallbacks* cb = nullptr;
  std::uint64_t max_points = 50000;
  bool use_private_blocks = true;
  // cost of deviating from the default thread at a non-preemptive switch point
  // (start, finish, blocking wait, voluntary yield): 0 = pure preemption
  // bounding, 1 = delay bounding (every deviation from the deterministic
  // round-robin continuation counts)
  unsigned free_alt_cost = 0;
  bool closure_mode = false;
  std::unordered_set<std::uint64_t>* visited = nullptr;  // closure mode
  // tag bits to mask off a stored pointer value for the publication rule
  std::uint64_t ptr_mask = ~std::uint64_t{7};

  // ---- per execution state -------------------------------------------------
  int nthreads = 0;
  Worker workers[kMaxThreads];
  int current = -1;
  std::uint64_t write_seq = 1;
  std::uint64_t npoints = 0;  // all scheduler entries (transitions)
  std::uint16_t preemptions = 0;
  std::uint64_t event_stamp = 0;
  const std::vector<std::uint8_t>* prefix = nullptr;
  const std::vector<PointRec>* expected = nullptr;
  std::vector<PointRec> trace;  // branching points only
  std::atomic<int> done{0};
  std::atomic<int> ready_count{0};
  std::size_t cut_pos = SIZE_MAX;  // closure mode: first point with a visited fingerprint
  std::uint64_t cut_count = 0;
  std::function<void(int)> on_invoke;  // lazily stamped invocation callback

  // ---- controller side -----------------------------------------------------
  void begin_execution(int n, const std::vector<std::uint8_t>* pfx,
                       const std::vector<PointRec>* exp) {
    nthreads = n;
    for (int i = 0; i < n; ++i) {
      Worker& w = workers[i];
      w.id = i;
      w.go.store(0, std::memory_order_relaxed);
      w.started = w.finished = w.parked_yield = false;
      w.yield_seq = w.last_yield_seq = 0;
      w.acc_since_yield = 0;
      w.ever_yielded = false;
      w.cycle_hash = 0;
      w.window_seq = 0;
      w.seen_cycles.clear();
      w.block_pred = nullptr;
      w.prev_addr = nullptr;
      w.priv.clear();
      w.pending_invoke = false;
      w.obs_hash = 0;
      w.local_state = 0;
    }
    current = -1;
    write_seq = 1;
    npoints = 0;
    preemptions = 0;
    event_stamp = 0;
    prefix = pfx;
    expected = exp;
    trace.clear();
    done.store(0, std::memory_order_relaxed);
    ready_count.store(0, std::memory_order_relaxed);
    cut_pos = SIZE_MAX;
    // publish the schedule we are about to run
    Progress* p = g_progress;
    p->nchoices = static_cast<std::uint32_t>(
        pfx ? std::min<std::size_t>(pfx->size(), sizeof(p->choices)) : 0);
    if (pfx && !pfx->empty())
      std::memcpy(p->choices, pfx->data(), p->nchoices);
    p->executions++;
  }

  // Called by the controller after all workers were created and are parked
  // in worker_enter(); runs the concurrent phase to completion.
  void run() {
    while (ready_count.load(std::memory_order_acquire) < nthreads)
      sched_yield_os();
    std::vector<int> opts;
    for (int i = 0; i < nthreads; ++i) opts.push_back(i);
    const int c = choose(0xFF, PK_START, 0, opts);
    current = opts[static_cast<std::size_t>(c)];
    workers[current].started = true;
    futex_set_wake(workers[current].go, 1);
    futex_wait_while(done, 0);
  }

  // ---- worker side ---------------------------------------------------------
  void worker_enter(int id) {
    Worker& w = workers[id];
    tl_worker = &w;
    ready_count.fetch_add(1, std::memory_order_acq_rel);
    futex_wait_while(w.go, 0);
    w.go.store(0, std::memory_order_relaxed);
  }

  void worker_finish() {
    Worker& w = *tl_worker;
    settle(w);
    ++npoints;
    w.finished = true;
    ++write_seq;
    tl_worker = nullptr;
    std::vector<int> opts;
    others_enabled_rr(w.id, opts);
    if (opts.empty()) {
      bool all = true;
      for (int i = 0; i < nthreads; ++i) all = all && workers[i].finished;
      if (!all) fatal(EXIT_DEADLOCK, "deadlock: no enabled thread at finish");
      futex_set_wake(done, 1);
      return;
    }
    const int c = choose(w.id, PK_FINISH, 0, opts);
    resume_other(opts[static_cast<std::size_t>(c)]);
  }

  void point(Worker& w, unsigned hkind, const volatile void* addr,
             unsigned size, std::uint64_t newval) {
    settle(w);
    const auto a = reinterpret_cast<std::uintptr_t>(addr);
    if (use_private_blocks && !w.priv.empty()) {
      if (in_private(w, a)) return;  // invisible to everybody else
      if (is_store_kind(hkind)) {
        const auto target = static_cast<std::uintptr_t>(newval & ptr_mask);
        if (target != 0 && in_private(w, target)) w.priv.clear();  // publish
      }
    }
    if (cb) cb->on_access(w.id, hkind, addr, size);
    ++npoints;
    ++w.acc_since_yield;
    if (npoints > max_points) fatal(EXIT_LIVELOCK, "step budget exceeded");
    std::vector<int> opts;
    opts.push_back(w.id);
    others_enabled_asc(w.id, opts);
    if (closure_mode && opts.size() > 1) check_cut();
    const int c = choose(w.id, PK_ACCESS, hkind, opts);
    if (c != 0) switch_to(w, opts[static_cast<std::size_t>(c)]);
    // we are about to perform the access
    if (w.pending_invoke) {
      w.pending_invoke = false;
      if (on_invoke) on_invoke(w.id);
    }
    const std::uint64_t seen = raw_read(addr, size);
    w.cycle_hash = mix(mix(mix(w.cycle_hash, hkind), a), seen);
    if (closure_mode) w.obs_hash = mix(mix(w.obs_hash, hkind), seen);
    if (hkind == HK_LOCK_CAS || hkind == HK_QSBR_RMW) {
      w.prev_addr = addr;
      w.prev_size = size;
      w.prev_val = seen;
    } else if (is_store_kind(hkind)) {
      ++write_seq;
    }
  }

  void spin(Worker& w) {
    settle(w);
    ++npoints;
    if (npoints > max_points) fatal(EXIT_LIVELOCK, "step budget exceeded");
    // May the spinning thread continue at once?  Yes if anything was written
    // since its previous yield, if it made no access since then (back-to-back
    // back-off calls), or if what it observed since then differs from every
    // observation cycle it already went through while nothing was written (a
    // deterministic thread that repeats an observation cycle over an
    // unchanged memory will repeat it forever).
    if (w.window_seq != write_seq) {
      w.window_seq = write_seq;
      w.seen_cycles.clear();
    }
    bool repeated = false;
    for (const auto h : w.seen_cycles) repeated = repeated || h == w.cycle_hash;
    const bool can_self = !w.ever_yielded || write_seq != w.last_yield_seq ||
                          w.acc_since_yield == 0 || !repeated;
    if (w.acc_since_yield != 0 && !repeated) w.seen_cycles.push_back(w.cycle_hash);
    w.ever_yielded = true;
    w.last_yield_seq = write_seq;
    w.acc_since_yield = 0;
    w.cycle_hash = 0;
    std::vector<int> opts;
    others_enabled_rr(w.id, opts);
    if (can_self) opts.push_back(w.id);
    if (opts.empty())
      fatal(EXIT_DEADLOCK,
            "deadlock: thread spins on unchanged state, nobody else enabled");
    if (closure_mode && opts.size() > 1) check_cut();
    const int c = choose(w.id, PK_YIELD, 0, opts);
    const int t = opts[static_cast<std::size_t>(c)];
    if (t != w.id) {
      w.parked_yield = true;
      w.yield_seq = write_seq;
      switch_to(w, t);
      w.parked_yield = false;
    }
  }

  // Blocking wait: the calling worker is disabled until pred() holds.  pred
  // must only read harness state (it is evaluated by other threads).
  void wait_until(std::function<bool()> pred) {
    Worker& w = *tl_worker;
    settle(w);
    if (pred()) return;
    ++npoints;
    w.block_pred = std::move(pred);
    std::vector<int> opts;
    others_enabled_rr(w.id, opts);
    if (opts.empty()) fatal(EXIT_DEADLOCK, "deadlock: all threads blocked");
    const int c = choose(w.id, PK_BLOCK, 0, opts);
    switch_to(w, opts[static_cast<std::size_t>(c)]);
    w.block_pred = nullptr;
  }

  void alloc_hook(void* p, std::size_t n) {
    Worker* w = tl_worker;
    if (w && !tl_passthru && use_private_blocks) {
      const auto a = reinterpret_cast<std::uintptr_t>(p);
      w->priv.emplace_back(a, a + n);
    }
    if (cb) {
      PassThru pt;
      cb->on_alloc(w ? w->id : -1, p, n);
    }
  }

  void free_hook(void* p) {
    Worker* w = tl_worker;
    if (w) {
      const auto a = reinterpret_cast<std::uintptr_t>(p);
      for (std::size_t i = 0; i < w->priv.size(); ++i)
        if (w->priv[i].first == a) {
          w->priv.erase(w->priv.begin() + static_cast<std::ptrdiff_t>(i));
          break;
        }
      if (w->prev_addr != nullptr) settle(*w);
    }
    if (cb) {
      PassThru pt;
      cb->on_free(w ? w->id : -1, p);
    }
  }

  std::uint64_t stamp() { return ++event_stamp; }

  [[noreturn]] void fatal(int code, const char* what) {
    Progress* p = g_progress;
    p->verdict = static_cast<std::uint32_t>(code);
    std::snprintf(p->what, sizeof(p->what), "%s", what);
    // the full choice list of this execution so far
    std::size_t n = 0;
    for (const auto& r : trace) {
      if (n >= sizeof(p->choices)) break;
      p->choices[n++] = r.chosen;
    }
    p->nchoices = static_cast<std::uint32_t>(n);
    p->points = npoints;
    ::msync(p, sizeof(Progress), MS_SYNC);
    std::fprintf(stderr, "FATAL-VERDICT %d: %s (choices=%zu)\n", code, what, n);
    std::_Exit(code);
  }

 private:
  static void sched_yield_os() { ::syscall(SYS_sched_yield); }

  static bool is_store_kind(unsigned k) {
    return k == HK_LOCK_CAS || k == HK_LOCK_STORE || k == HK_DATA_STORE ||
           k == HK_QSBR_RMW || k == HK_QSBR_STORE || k == HK_HARNESS_STORE ||
           k == HK_MUTEX_UNLOCK;
  }

  static bool in_private(const Worker& w, std::uintptr_t a) {
    for (const auto& b : w.priv)
      if (a >= b.first && a < b.second) return true;
    return false;
  }

  void settle(Worker& w) {
    if (w.prev_addr == nullptr) return;
    if (raw_read(w.prev_addr, w.prev_size) != w.prev_val) ++write_seq;
    w.prev_addr = nullptr;
  }

  bool enabled_for_others(Worker& u) {
    if (u.finished) return false;
    if (u.parked_yield && u.yield_seq == write_seq) return false;
    if (u.block_pred) {
      PassThru pt;
      return u.block_pred();
    }
    return true;
  }

  void others_enabled_asc(int self, std::vector<int>& out) {
    for (int i = 0; i < nthreads; ++i)
      if (i != self && enabled_for_others(workers[i])) out.push_back(i);
  }

  void others_enabled_rr(int self, std::vector<int>& out) {
    for (int k = 1; k < nthreads; ++k) {
      const int i = (self + k) % nthreads;
      if (enabled_for_others(workers[i])) out.push_back(i);
    }
  }

  int choose(std::uint8_t thread, PointKind pk, unsigned hkind,
             const std::vector<int>& opts) {
    if (opts.size() < 2) return 0;
    const std::size_t pos = trace.size();
    PointRec r{};
    r.thread = thread;
    r.pkind = pk;
    r.hkind = static_cast<std::uint8_t>(hkind);
    r.nopts = static_cast<std::uint8_t>(opts.size());
    r.preempt_before = preemptions;
    int c = 0;
    if (prefix != nullptr && pos < prefix->size()) {
      c = (*prefix)[pos];
      if (c >= static_cast<int>(opts.size()))
        fatal(EXIT_DIVERGED, "replay divergence: choice out of range");
      if (expected != nullptr && pos < expected->size() &&
          !same_shape((*expected)[pos], r)) {
        char buf[200];
        const auto& e = (*expected)[pos];
        std::snprintf(buf, sizeof buf,
                      "replay divergence at point %zu: expected t%u k%u h%u "
                      "n%u, got t%u k%u h%u n%u",
                      pos, e.thread, e.pkind, e.hkind, e.nopts, r.thread,
                      r.pkind, r.hkind, r.nopts);
        fatal(EXIT_DIVERGED, buf);
      }
    }
    if (c != 0) preemptions = static_cast<std::uint16_t>(preemptions + (pk == PK_ACCESS ? 1U : free_alt_cost));
    r.chosen = static_cast<std::uint8_t>(c);
    r.chosen_thread = static_cast<std::uint8_t>(opts[static_cast<std::size_t>(c)]);
    trace.push_back(r);
    return c;
  }

  void resume_other(int t) {
    current = t;
    workers[t].started = true;
    futex_set_wake(workers[t].go, 1);
  }

  void switch_to(Worker& self, int t) {
    resume_other(t);
    futex_wait_while(self.go, 0);
    self.go.store(0, std::memory_order_relaxed);
  }

  // closure mode ------------------------------------------------------------
  // Closure mode: at every branching point outside the replayed prefix the
  // fingerprint of (shared state, every thread's declared local state and
  // observations since its last declared boundary, scheduler bookkeeping) is
  // looked up.  The first time an already visited fingerprint is met, the
  // execution is cut there: it still runs to completion on default choices,
  // but the explorer does not branch at or beyond that point (the execution
  // that inserted the fingerprint explores every alternative from it).
  void check_cut() {
    if (cut_pos != SIZE_MAX) return;
    if (prefix != nullptr && trace.size() < prefix->size()) return;
    std::uint64_t h = cb ? cb->fingerprint() : 0;
    for (int i = 0; i < nthreads; ++i) {
      Worker& u = workers[i];
      std::uint64_t th = mix(u.local_state, u.obs_hash);
      th = mix(th, (u.finished ? 1U : 0U) | (u.started ? 2U : 0U) |
                       (u.parked_yield && u.yield_seq == write_seq ? 4U : 0U) | (u.block_pred ? 8U : 0U) |
                       (u.ever_yielded ? 16U : 0U) | (write_seq != u.last_yield_seq ? 32U : 0U) |
                       (u.acc_since_yield == 0 ? 64U : 0U));
      th = mix(th, u.cycle_hash);
      if (u.window_seq == write_seq)
        for (const auto c : u.seen_cycles) th = mix(th, c);
      h = mix(h, th);
    }
    h = mix(h, static_cast<std::uint64_t>(current));
    if (!visited->insert(h).second) {
      cut_pos = trace.size();
      ++cut_count;
    }
  }
};

inline Scheduler g_sched;

// ---------------------------------------------------------------------------
// Explorer: iterative DFS over choice prefixes.
inline std::string choices_to_string(const std::vector<PointRec>& tr);

struct ExploreStats {
  std::uint64_t executions = 0;
  std::uint64_t points = 0;          // transitions
  std::uint64_t tree_nodes = 0;      // distinct choice-tree nodes (states)
  std::uint64_t max_trace = 0;
  std::uint64_t by_preemptions[16] = {0};
  bool complete = true;
};

struct WorkItem {
  std::vector<std::uint8_t> prefix;
  std::vector<PointRec> expected;  // shape of the prefix points
};

// run_one(prefix, expected) must execute one full execution through g_sched
// and run the oracles; it returns false to stop the exploration early.
template <class RunOne>
ExploreStats explore(unsigned bound, unsigned shard, unsigned nshards,
                     std::uint64_t max_executions, RunOne&& run_one) {
  ExploreStats st;
  std::vector<WorkItem> stack;
  stack.push_back(WorkItem{});
  std::uint64_t toplevel_child = 0;
  bool root = true;
  while (!stack.empty()) {
    WorkItem item = std::move(stack.back());
    stack.pop_back();
    const bool is_root = root;
    root = false;
    if (st.executions >= max_executions) {
      st.complete = false;
      break;
    }
    struct timespec ts0, ts1;
    clock_gettime(CLOCK_MONOTONIC, &ts0);
    const bool keep_going = run_one(item.prefix, item.expected);
    clock_gettime(CLOCK_MONOTONIC, &ts1);
    {
      const double ms = (ts1.tv_sec - ts0.tv_sec) * 1e3 + (ts1.tv_nsec - ts0.tv_nsec) / 1e6;
      static const bool dbg = std::getenv("VSCHED_SLOW") != nullptr;
      if (dbg && ms > 20)
        std::fprintf(stderr, "SLOW %.1fms points=%llu choices=%s\n", ms,
                     static_cast<unsigned long long>(g_sched.npoints), choices_to_string(g_sched.trace).c_str());
    }
    const std::vector<PointRec>& tr = g_sched.trace;
    const bool counted = !(is_root && shard != 0);
    if (counted) {
      ++st.executions;
      st.points += g_sched.npoints;
      st.tree_nodes += tr.size() - item.prefix.size() + (is_root ? 1 : 0);
      st.max_trace = std::max<std::uint64_t>(st.max_trace, tr.size());
      st.by_preemptions[std::min<unsigned>(g_sched.preemptions, 15)]++;
    }
    if (!keep_going) {
      st.complete = false;
      break;
    }
    // children, pushed in reverse so that the DFS visits them in order
    std::vector<WorkItem> kids;
    const std::size_t branch_end = std::min(tr.size(), g_sched.cut_pos);
    for (std::size_t i = item.prefix.size(); i < branch_end; ++i) {
      const PointRec& p = tr[i];
      const unsigned cost =
          p.preempt_before + (p.pkind == PK_ACCESS ? 1U : g_sched.free_alt_cost);
      if (cost > bound) continue;
      for (unsigned alt = 1; alt < p.nopts; ++alt) {
        if (is_root) {
          const std::uint64_t k = toplevel_child++;
          if (k % nshards != shard) continue;
        }
        WorkItem w;
        w.prefix.reserve(i + 1);
        for (std::size_t j = 0; j < i; ++j) w.prefix.push_back(tr[j].chosen);
        w.prefix.push_back(static_cast<std::uint8_t>(alt));
        w.expected.assign(tr.begin(), tr.begin() + static_cast<std::ptrdiff_t>(i) + 1);
        kids.push_back(std::move(w));
      }
    }
    for (auto it = kids.rbegin(); it != kids.rend(); ++it)
      stack.push_back(std::move(*it));
  }
  return st;
}

// ---------------------------------------------------------------------------
// Persistent OS threads reused by every execution (creating threads per
// execution is slow under AddressSanitizer, whose thread registry grows).
class Pool {
 public:
  std::function<void(int)> body;  // runs in pool thread i, once per dispatch

  void dispatch(int n) {
    ensure(n);
    idle.store(0, std::memory_order_release);
    for (int i = 0; i < n; ++i) futex_set_wake(slots[static_cast<std::size_t>(i)]->job, 1);
  }
  void wait_idle(int n) {
    for (;;) {
      const int v = idle.load(std::memory_order_acquire);
      if (v >= n) return;
      futex_wait_while(idle, v);
    }
  }

 private:
  struct Slot {
    std::atomic<int> job{0};
  };
  std::vector<std::unique_ptr<Slot>> slots;
  std::atomic<int> idle{0};

  void ensure(int n) {
    while (static_cast<int>(slots.size()) < n) {
      const int i = static_cast<int>(slots.size());
      slots.push_back(std::make_unique<Slot>());
      Slot* s = slots.back().get();
      std::thread([this, s, i] {
        for (;;) {
          futex_wait_while(s->job, 0);
          s->job.store(0, std::memory_order_relaxed);
          body(i);
          idle.fetch_add(1, std::memory_order_seq_cst);
          if (g_sleepers.load(std::memory_order_seq_cst) != 0)
            futex(&idle, FUTEX_WAKE_PRIVATE, INT_MAX);
        }
      }).detach();
    }
  }
};

inline std::string choices_to_string(const std::vector<PointRec>& tr) {
  std::string s;
  for (const auto& r : tr) {
    if (!s.empty()) s += '.';
    s += std::to_string(r.chosen);
  }
  return s;
}

inline std::vector<std::uint8_t> choices_from_string(const std::string& s) {
  std::vector<std::uint8_t> v;
  std::size_t i = 0;
  while (i < s.size()) {
    std::size_t j = s.find('.', i);
    if (j == std::string::npos) j = s.size();
    if (j > i) v.push_back(static_cast<std::uint8_t>(std::stoi(s.substr(i, j - i))));
    i = j + 1;
  }
  return v;
}

}  // namespace vsched

// ---------------------------------------------------------------------------
// The hook entry points.
#ifndef VSCHED_NO_HOOK_DEFS
extern "C" {
void unodb_verif_point(unsigned kind, const volatile void* addr, unsigned size,
                       std::uint64_t new_value) noexcept {
  vsched::Worker* w = vsched::tl_worker;
  if (w == nullptr || vsched::tl_passthru != 0) return;
  vsched::g_sched.point(*w, kind, addr, size, new_value);
}
void unodb_verif_spin() noexcept {
  vsched::Worker* w = vsched::tl_worker;
  if (w == nullptr || vsched::tl_passthru != 0) return;
  vsched::g_sched.spin(*w);
}
void unodb_verif_alloc(void* p, std::size_t n) noexcept {
  vsched::g_sched.alloc_hook(p, n);
}
void unodb_verif_free(void* p) noexcept { vsched::g_sched.free_hook(p); }
}
#endif
