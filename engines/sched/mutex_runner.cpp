// Engine A runner for unodb::mutex_db (C13).  The only scheduling points are
// the acquisition and release of the index mutex, intercepted by defining
// pthread_mutex_lock/unlock/trylock in this executable; a thread requesting a
// held mutex is disabled until it is released (blocking lock).  All
// interleavings are explored (two points per operation), no bound.
#include "global.hpp"

#include <cerrno>
#include <pthread.h>

#include <algorithm>
#include <array>
#include <cstdint>
#include <cstdio>
#include <cstring>
#include <map>
#include <memory>
#include <optional>
#include <set>
#include <sstream>
#include <string>
#include <vector>

#include "mutex_art.hpp"

#include "../common/jsonw.hpp"
#include "sched.hpp"

using vsched::g_sched;
using Db = unodb::mutex_db<std::uint64_t, unodb::value_view>;

// the real functions, for every mutex other than the index mutex
extern "C" {
int real_pthread_mutex_lock(pthread_mutex_t*);
int real_pthread_mutex_unlock(pthread_mutex_t*);
int real_pthread_mutex_trylock(pthread_mutex_t*);
}
__asm__(".symver real_pthread_mutex_lock,__pthread_mutex_lock@GLIBC_2.2.5");
__asm__(".symver real_pthread_mutex_unlock,__pthread_mutex_unlock@GLIBC_2.2.5");
__asm__(".symver real_pthread_mutex_trylock,__pthread_mutex_trylock@GLIBC_2.2.5");

namespace {

enum OpKind { OP_GET, OP_GET_HOLD, OP_INSERT, OP_REMOVE, OP_EMPTY, OP_CLEAR, OP_SCAN, OP_SCAN_FROM, OP_SCAN_RANGE };

struct Op {
  OpKind kind;
  std::uint64_t key = 0;
  std::string text;
};

struct Event {
  int thread, opidx;
  const Op* op;
  std::uint64_t inv = 0, ret = 0;
  bool ok = false;
  std::string val;
  std::vector<std::pair<std::uint64_t, std::string>> scan;
  int lock_acquisitions = 0;
};

struct Violation {
  std::string property, signature, what, choices;
  unsigned preemptions = 0;
};

struct Harness final : vsched::HarnessCallbacks {
  std::string id;
  std::vector<std::uint64_t> init;
  std::vector<std::vector<Op>> progs;
  std::unique_ptr<Db> db;
  pthread_mutex_t* db_mutex = nullptr;
  int owner = -1;  // scheduler-level owner of the index mutex
  std::vector<Event> events;
  std::vector<int> cur_event;
  std::uint64_t ops_completed = 0;
  std::vector<Violation> violations;
  std::uint64_t violations_total = 0;
  std::set<std::string> outcomes;
  std::uint64_t overlapping = 0;
  std::vector<std::string> samples;
  bool concurrent = false;

  void violation(const std::string& sig, const std::string& what);

  void on_alloc(int tid, void*, std::size_t) override { check_alloc(tid); }
  void on_free(int tid, void*) override { check_alloc(tid); }
  void check_alloc(int tid) {
    if (!concurrent || tid < 0) return;
    if (owner != tid) violation("C13/unlocked-mutation", "the index allocated or freed memory while the calling thread did not hold the index mutex");
  }
};

Harness H;
vsched::Pool g_pool;

std::string describe() {
  std::ostringstream os;
  for (const auto& e : H.events) {
    os << "T" << e.thread << "." << e.opidx << " " << e.op->text << " [" << e.inv << "," << e.ret << "]";
    switch (e.op->kind) {
      case OP_GET:
      case OP_GET_HOLD:
        os << (e.ok ? " found" : " miss");
        break;
      case OP_INSERT:
      case OP_REMOVE:
      case OP_EMPTY:
        os << (e.ok ? " true" : " false");
        break;
      case OP_SCAN:
      case OP_SCAN_FROM:
      case OP_SCAN_RANGE:
        os << " n=" << e.scan.size();
        break;
      default:
        break;
    }
    os << "; ";
  }
  return os.str();
}

void Harness::violation(const std::string& sig, const std::string& what) {
  ++violations_total;
  if (violations.size() < 20) {
    Violation v;
    v.property = "C13";
    v.signature = sig;
    v.what = what + " :: " + describe();
    v.choices = vsched::choices_to_string(g_sched.trace);
    v.preemptions = g_sched.preemptions;
    violations.push_back(v);
  }
}

// ---- the intercepted mutex ---------------------------------------------------
bool managed(pthread_mutex_t* m) { return vsched::tl_worker != nullptr && vsched::tl_passthru == 0 && m == H.db_mutex; }

void sched_lock() {
  vsched::Worker& w = *vsched::tl_worker;
  static std::uint64_t word;
  g_sched.point(w, vsched::HK_MUTEX_LOCK, &word, 8, 0);  // the request: others may run first
  const int me = w.id;
  g_sched.wait_until([] { return H.owner == -1; });
  H.owner = me;
  const int ei = H.cur_event[static_cast<std::size_t>(me)];
  if (ei >= 0) ++H.events[static_cast<std::size_t>(ei)].lock_acquisitions;
}

// try_lock: one scheduling point, then an immediate answer (never waits)
int sched_trylock() {
  vsched::Worker& w = *vsched::tl_worker;
  static std::uint64_t word;
  g_sched.point(w, vsched::HK_MUTEX_LOCK, &word, 8, 0);
  if (H.owner != -1) return EBUSY;
  H.owner = w.id;
  const int ei = H.cur_event[static_cast<std::size_t>(w.id)];
  if (ei >= 0) ++H.events[static_cast<std::size_t>(ei)].lock_acquisitions;
  return 0;
}

void sched_unlock() {
  vsched::Worker& w = *vsched::tl_worker;
  static std::uint64_t word;
  if (H.owner != w.id) H.violation("C13/unlock-not-owner", "the index mutex was released by a thread that does not hold it");
  g_sched.point(w, vsched::HK_MUTEX_UNLOCK, &word, 8, 0);
  H.owner = -1;
}

}  // namespace

extern "C" {
int pthread_mutex_lock(pthread_mutex_t* m) {
  if (managed(m)) {
    sched_lock();
    return 0;
  }
  return real_pthread_mutex_lock(m);
}
int pthread_mutex_trylock(pthread_mutex_t* m) {
  if (managed(m)) return sched_trylock();
  return real_pthread_mutex_trylock(m);
}
int pthread_mutex_unlock(pthread_mutex_t* m) {
  if (managed(m)) {
    sched_unlock();
    return 0;
  }
  return real_pthread_mutex_unlock(m);
}
}

namespace {

std::array<std::byte, 8> make_value(unsigned creator, unsigned opidx, std::uint64_t key) {
  std::array<std::byte, 8> v{};
  v[0] = static_cast<std::byte>(creator);
  v[1] = static_cast<std::byte>(opidx);
  for (int i = 0; i < 6; ++i) v[static_cast<std::size_t>(2 + i)] = static_cast<std::byte>((key >> (8 * i)) & 0xFF);
  return v;
}
std::string val_str(const std::array<std::byte, 8>& v) { return std::string(reinterpret_cast<const char*>(v.data()), v.size()); }

void begin_event(int t, int i, const Op& op) {
  Event e{};
  e.thread = t;
  e.opidx = i;
  e.op = &op;
  H.events.push_back(e);
  H.cur_event[static_cast<std::size_t>(t)] = static_cast<int>(H.events.size()) - 1;
  vsched::tl_worker->pending_invoke = true;
}
void stamp_invoke(int t) {
  const int ei = H.cur_event[static_cast<std::size_t>(t)];
  if (ei >= 0 && H.events[static_cast<std::size_t>(ei)].inv == 0) H.events[static_cast<std::size_t>(ei)].inv = g_sched.stamp();
}
Event& end_event(int t) {
  vsched::Worker* w = vsched::tl_worker;
  if (w->pending_invoke) {
    w->pending_invoke = false;
    stamp_invoke(t);
  }
  Event& e = H.events[static_cast<std::size_t>(H.cur_event[static_cast<std::size_t>(t)])];
  e.ret = g_sched.stamp();
  return e;
}
void close_event(int t) {
  H.cur_event[static_cast<std::size_t>(t)] = -1;
  ++H.ops_completed;
}

void worker_main(int t) {
  g_sched.worker_enter(t);
  const auto& prog = H.progs[static_cast<std::size_t>(t)];
  for (std::size_t i = 0; i < prog.size(); ++i) {
    const Op& op = prog[i];
    begin_event(t, static_cast<int>(i), op);
    switch (op.kind) {
      case OP_GET:
      case OP_GET_HOLD: {
        auto r = H.db->get(op.key);
        Event& e = end_event(t);
        e.ok = r.first.has_value();
        if (e.ok != r.second.owns_lock())
          H.violation(e.ok ? "C13/hit-without-lock" : "C13/miss-with-lock",
                      e.ok ? "a get that found its key returned without ownership of the index lock" : "a get that missed returned holding the index lock");
        if (e.ok != (H.owner == t)) H.violation("C13/owner-mismatch", "after get the index mutex owner does not match the result (hit must own it, miss must not)");
        if (e.ok) {
          e.val.assign(reinterpret_cast<const char*>(r.first->data()), r.first->size());
          const std::uint64_t done0 = H.ops_completed;
          if (op.kind == OP_GET_HOLD) {
            // hold the handle across two points at which every other thread may run
            static std::uint64_t word;
            g_sched.point(*vsched::tl_worker, vsched::HK_HARNESS_LOAD, &word, 8, 0);
            g_sched.point(*vsched::tl_worker, vsched::HK_HARNESS_LOAD, &word, 8, 0);
          }
          const std::string now(reinterpret_cast<const char*>(r.first->data()), r.first->size());
          if (now != e.val) H.violation("C13/pinned-value-changed", "the value bytes changed while the caller held the handle returned by get");
          if (H.ops_completed != done0) H.violation("C13/op-during-pin", "another thread's operation completed while the caller held the handle returned by get");
        }
        close_event(t);
        // r goes out of scope here: the handle lets go of the lock
        break;
      }
      case OP_INSERT: {
        const auto v = make_value(static_cast<unsigned>(t) + 1, static_cast<unsigned>(i), op.key);
        // entries of key 2 carry a zero-length value (a hit must pin them like any other)
        const std::size_t vlen = op.key == 2 ? 0 : v.size();
        const bool ok = H.db->insert(op.key, unodb::value_view{v.data(), vlen});
        Event& e = end_event(t);
        e.ok = ok;
        e.val = val_str(v).substr(0, vlen);
        close_event(t);
        break;
      }
      case OP_REMOVE: {
        const bool ok = H.db->remove(op.key);
        end_event(t).ok = ok;
        close_event(t);
        break;
      }
      case OP_EMPTY: {
        const bool ok = H.db->empty();
        end_event(t).ok = ok;
        close_event(t);
        break;
      }
      case OP_CLEAR: {
        H.db->clear();
        end_event(t);
        close_event(t);
        break;
      }
      case OP_SCAN:
      case OP_SCAN_FROM:
      case OP_SCAN_RANGE: {
        std::vector<std::pair<std::uint64_t, std::string>> seq;
        auto fn = [&seq](const unodb::visitor<Db::iterator>& v) {
          const auto kv = v.get_key();
          std::uint64_t k = 0;
          for (std::size_t j = 0; j < kv.size() && j < 8; ++j) k = (k << 8) | static_cast<std::uint64_t>(kv[j]);
          const auto vv = v.get_value();
          seq.emplace_back(k, std::string(reinterpret_cast<const char*>(vv.data()), vv.size()));
          return false;
        };
        if (op.kind == OP_SCAN) H.db->scan(fn);
        else if (op.kind == OP_SCAN_FROM) H.db->scan_from(op.key, fn);
        else H.db->scan_range(op.key, std::uint64_t{3}, fn);  // [key, 3): forward over the whole key space used
        Event& e = end_event(t);
        e.scan = seq;
        close_event(t);
        break;
      }
    }
    // no operation other than a successful get returns with the lock held, and each takes it exactly once
    const Event& e = H.events.back();
    (void)e;
    if (H.owner == t) H.violation("C13/lock-held-after-return", "an operation returned with the index mutex still held by the caller: " + op.text);
  }
  g_sched.worker_finish();
}

using Content = std::map<std::uint64_t, std::string>;

struct Lin {
  std::vector<const Event*> ops;
  std::vector<std::vector<int>> preds;
  Content final_content;
  std::set<std::pair<unsigned, std::string>> dead;
  static std::string ser(const Content& c) {
    std::string s;
    for (const auto& kv : c) {
      s.append(reinterpret_cast<const char*>(&kv.first), 8);
      s += kv.second;
    }
    return s;
  }
  bool dfs(unsigned mask, Content c) {
    const unsigned n = static_cast<unsigned>(ops.size());
    if (mask == (1U << n) - 1U) return c == final_content;
    const auto key = std::make_pair(mask, ser(c));
    if (dead.count(key)) return false;
    for (unsigned i = 0; i < n; ++i) {
      if (mask & (1U << i)) continue;
      bool ready = true;
      for (int p : preds[i]) ready = ready && (mask & (1U << static_cast<unsigned>(p)));
      if (!ready) continue;
      const Event& e = *ops[i];
      Content c2 = c;
      bool match = false;
      auto it = c2.find(e.op->key);
      switch (e.op->kind) {
        case OP_GET:
        case OP_GET_HOLD:
          match = e.ok ? (it != c2.end() && it->second == e.val) : (it == c2.end());
          break;
        case OP_INSERT:
          match = e.ok == (it == c2.end());
          if (match && e.ok) c2[e.op->key] = e.val;
          break;
        case OP_REMOVE:
          match = e.ok == (it != c2.end());
          if (match && e.ok) c2.erase(it);
          break;
        case OP_EMPTY:
          match = e.ok == c2.empty();
          break;
        case OP_CLEAR:
          match = true;
          c2.clear();
          break;
        case OP_SCAN:
        case OP_SCAN_FROM:
        case OP_SCAN_RANGE: {
          // scan: everything; scan_from(k): keys >= k; scan_range(k, 3): keys in [k, 3) = keys >= k here
          std::vector<std::pair<std::uint64_t, std::string>> want(e.op->kind == OP_SCAN ? c2.begin() : c2.lower_bound(e.op->key), c2.end());
          match = want == e.scan;
          break;
        }
      }
      if (match && dfs(mask | (1U << i), c2)) return true;
    }
    dead.insert(key);
    return false;
  }
};

bool run_one(const std::vector<std::uint8_t>& prefix, const std::vector<vsched::PointRec>& expected) {
  const int n = static_cast<int>(H.progs.size());
  H.db = std::make_unique<Db>();
  H.db_mutex = H.db->mutex.native_handle();
  H.owner = -1;
  H.events.clear();
  H.events.reserve(32);
  H.cur_event.assign(static_cast<std::size_t>(n), -1);
  H.ops_completed = 0;
  Content init;
  unsigned idx = 0;
  for (const auto k : H.init) {
    const auto v = make_value(0xEE, idx++, k);
    const std::size_t vlen = k == 2 ? 0 : v.size();
    (void)H.db->insert(k, unodb::value_view{v.data(), vlen});
    init[k] = val_str(v).substr(0, vlen);
  }
  g_sched.begin_execution(n, &prefix, &expected);
  g_pool.dispatch(n);
  H.concurrent = true;
  g_sched.run();
  g_pool.wait_idle(n);
  H.concurrent = false;
  if (H.owner != -1) H.violation("C13/mutex-left-locked", "the index mutex is still held after all operations returned");
  // every call takes the mutex exactly once
  for (const auto& e : H.events)
    if (e.lock_acquisitions != 1)
      H.violation("C13/lock-count", "a public call acquired the index mutex " + std::to_string(e.lock_acquisitions) + " times instead of exactly once: " + e.op->text);
  // linearizability
  Lin lin;
  for (const auto& e : H.events) lin.ops.push_back(&e);
  lin.preds.resize(lin.ops.size());
  bool overlap = false;
  for (std::size_t i = 0; i < lin.ops.size(); ++i)
    for (std::size_t j = 0; j < lin.ops.size(); ++j) {
      if (i != j && lin.ops[j]->ret < lin.ops[i]->inv) lin.preds[i].push_back(static_cast<int>(j));
      if (lin.ops[i]->thread != lin.ops[j]->thread && lin.ops[i]->inv < lin.ops[j]->ret && lin.ops[j]->inv < lin.ops[i]->ret) overlap = true;
    }
  if (H.owner == -1) {
    H.db->scan([&lin](const unodb::visitor<Db::iterator>& v) {
      const auto kv = v.get_key();
      std::uint64_t k = 0;
      for (std::size_t j = 0; j < kv.size() && j < 8; ++j) k = (k << 8) | static_cast<std::uint64_t>(kv[j]);
      const auto vv = v.get_value();
      lin.final_content[k] = std::string(reinterpret_cast<const char*>(vv.data()), vv.size());
      return false;
    });
    if (!lin.dfs(0, init)) H.violation("C13/not-linearizable", "no sequential order explains the results");
  }
  std::string oc;
  for (const auto& e : H.events) {
    oc += "T" + std::to_string(e.thread) + "." + std::to_string(e.opidx) + "=" + (e.ok ? "1" : "0") + e.val.substr(0, 2) + std::to_string(e.scan.size()) + ";";
  }
  if (overlap) oc += "|overlap";
  if (H.outcomes.insert(oc).second) {
    if (overlap) ++H.overlapping;
    if (H.samples.size() < 3 && overlap) H.samples.push_back(vsched::choices_to_string(g_sched.trace) + " => " + describe());
  }
  H.db.reset();
  return H.violations_total < 200;
}

std::vector<std::string> split(const std::string& s, char c) {
  std::vector<std::string> out;
  std::string cur;
  for (char ch : s) {
    if (ch == c) {
      out.push_back(cur);
      cur.clear();
    } else {
      cur += ch;
    }
  }
  out.push_back(cur);
  return out;
}

Op parse_op(const std::string& t) {
  Op op{};
  op.text = t;
  const auto f = split(t, ':');
  const std::string& k = f[0];
  if (k == "g") op.kind = OP_GET;
  else if (k == "G") op.kind = OP_GET_HOLD;
  else if (k == "i") op.kind = OP_INSERT;
  else if (k == "r") op.kind = OP_REMOVE;
  else if (k == "e") op.kind = OP_EMPTY;
  else if (k == "c") op.kind = OP_CLEAR;
  else if (k == "s") op.kind = OP_SCAN;
  else if (k == "f") op.kind = OP_SCAN_FROM;
  else if (k == "R") op.kind = OP_SCAN_RANGE;
  else std::exit(vsched::EXIT_USAGE);
  if (f.size() > 1) op.key = std::stoull(f[1], nullptr, 16);
  return op;
}

}  // namespace

int main(int argc, char** argv) {
  std::string out_path, progress_path, replay;
  unsigned bound = 1000, shard = 0, nshards = 1;
  std::uint64_t max_exec = ~std::uint64_t{0};
  bool have_replay = false;
  for (int i = 1; i < argc; ++i) {
    const std::string a = argv[i];
    auto next = [&]() -> std::string {
      if (i + 1 >= argc) std::exit(vsched::EXIT_USAGE);
      return argv[++i];
    };
    if (a == "--id") H.id = next();
    else if (a == "--init") {
      const auto s = next();
      if (!s.empty())
        for (const auto& f : split(s, ',')) H.init.push_back(std::stoull(f, nullptr, 16));
    } else if (a == "--thread") {
      std::vector<Op> p;
      for (const auto& f : split(next(), ','))
        if (!f.empty()) p.push_back(parse_op(f));
      H.progs.push_back(p);
    } else if (a == "--bound") bound = static_cast<unsigned>(std::stoul(next()));
    else if (a == "--closure") {
    } else if (a == "--shard") {
      const auto f = split(next(), '/');
      shard = static_cast<unsigned>(std::stoul(f.at(0)));
      nshards = static_cast<unsigned>(std::stoul(f.at(1)));
    } else if (a == "--max-exec") max_exec = std::stoull(next());
    else if (a == "--delay-bounded") g_sched.free_alt_cost = 1;
    else if (a == "--out") out_path = next();
    else if (a == "--progress") progress_path = next();
    else if (a == "--replay") {
      replay = next();
      have_replay = true;
    } else {
      std::fprintf(stderr, "unknown arg %s\n", a.c_str());
      return vsched::EXIT_USAGE;
    }
  }
  if (H.progs.empty() || H.progs.size() > 4) return vsched::EXIT_USAGE;
  vsched::progress_open(progress_path.empty() ? nullptr : progress_path.c_str());
  std::snprintf(vsched::g_progress->scenario, sizeof(vsched::g_progress->scenario), "%s", H.id.c_str());
  g_sched.cb = &H;
  g_sched.use_private_blocks = false;
  g_sched.on_invoke = stamp_invoke;
  g_pool.body = worker_main;

  vsched::ExploreStats st;
  if (have_replay) {
    const auto pfx = vsched::choices_from_string(replay);
    const std::vector<vsched::PointRec> none;
    run_one(pfx, none);
    st.executions = 1;
    st.points = g_sched.npoints;
    st.tree_nodes = g_sched.trace.size();
    std::fprintf(stderr, "replay: %s\n", describe().c_str());
  } else {
    st = vsched::explore(bound, shard, nshards, max_exec, run_one);
  }
  jsonw::Obj o;
  o.str("scenario", H.id);
  o.num("bound", bound);
  o.num("shard", shard);
  o.num("nshards", nshards);
  o.boolean("complete", st.complete);
  o.num("executions", st.executions);
  o.num("points", st.points);
  o.num("tree_nodes", st.tree_nodes);
  o.num("max_trace", st.max_trace);
  {
    std::string s = "[";
    for (int i = 0; i < 16; ++i) s += (i ? "," : "") + std::to_string(st.by_preemptions[i]);
    o.raw("by_preemptions", s + "]");
  }
  o.num("distinct_outcomes", H.outcomes.size());
  o.num("overlapping_outcomes", H.overlapping);
  o.num("frees_in_concurrent_phase", 0);
  o.num("violations_total", H.violations_total);
  {
    jsonw::Arr a;
    for (const auto& v : H.violations) {
      jsonw::Obj vo;
      vo.str("property", v.property);
      vo.str("signature", v.signature);
      vo.str("what", v.what);
      vo.str("choices", v.choices);
      vo.num("preemptions", v.preemptions);
      a.raw(vo.done());
    }
    o.raw("violations", a.done());
  }
  {
    jsonw::Arr a;
    for (const auto& l : H.samples) a.str(l);
    o.raw("samples", a.done());
  }
  const std::string js = o.done();
  if (out_path.empty()) {
    std::puts(js.c_str());
    std::fflush(stdout);
  } else {
    FILE* f = std::fopen(out_path.c_str(), "w");
    if (!f) return vsched::EXIT_USAGE;
    std::fputs(js.c_str(), f);
    std::fclose(f);
  }
  std::_Exit(0);
}
