// Engine A runner for unodb::optimistic_lock alone (C07): 2-3 threads perform
// read sections, upgrades, multi-word protected writes, unlock and
// unlock-and-obsolete on ONE lock guarding two words with the writers'
// invariant y == x + 1.  Closure mode: unbounded exhaustive search over
// (shared words, monitor state, declared per-thread local state).
#include "global.hpp"

#include <cstdint>
#include <cstdio>
#include <cstring>
#include <memory>
#include <set>
#include <sstream>
#include <string>
#include <unordered_set>
#include <vector>

#include "optimistic_lock.hpp"

#include "../common/jsonw.hpp"
#include "sched.hpp"

using vsched::g_sched;
using unodb::optimistic_lock;

namespace {

struct Shared {
  optimistic_lock lock;
  unodb::in_critical_section<std::uint64_t> x{0};
  unodb::in_critical_section<std::uint64_t> y{1};
};

struct Violation {
  std::string property, signature, what, choices;
  unsigned preemptions = 0;
};

struct ThreadMon {
  bool open = false;   // a read section is open
  bool dirty = false;  // a writer was active at / acquired the lock since the section was opened
  bool obsolete_at_open = false;
};

struct Harness final : vsched::HarnessCallbacks {
  std::vector<std::vector<std::string>> progs;  // per thread: sequence of program names
  std::string id;
  std::unique_ptr<Shared> sh;
  int writers_active = 0;
  bool obsolete = false;
  std::vector<ThreadMon> mon;
  std::ostringstream log;
  std::vector<Violation> violations;
  std::uint64_t violations_total = 0;
  std::set<std::string> outcomes;
  std::uint64_t interesting = 0;
  std::vector<std::string> samples;
  bool exec_overlap = false;  // some read section saw a concurrent writer (non-trivial execution)

  std::uint64_t fingerprint() override {
    std::uint64_t h = 0;
    h = vsched::mix(h, sh->lock.version.version.load(std::memory_order_relaxed));
    h = vsched::mix(h, sh->x.value.load(std::memory_order_relaxed));
    h = vsched::mix(h, sh->y.value.load(std::memory_order_relaxed));
    h = vsched::mix(h, static_cast<std::uint64_t>(writers_active) * 2 + (obsolete ? 1 : 0));
    for (const auto& m : mon) h = vsched::mix(h, (m.open ? 1U : 0U) | (m.dirty ? 2U : 0U) | (m.obsolete_at_open ? 4U : 0U));
    return h;
  }

  void violation(const std::string& sig, const std::string& what) {
    ++violations_total;
    if (violations.size() < 20) {
      Violation v;
      v.property = "C07";
      v.signature = sig;
      v.what = what + " :: " + log.str();
      v.choices = vsched::choices_to_string(g_sched.trace);
      v.preemptions = g_sched.preemptions;
      violations.push_back(v);
    }
  }
};

Harness H;
vsched::Pool g_pool;

void declare(int t, std::uint64_t prog, std::uint64_t pc, std::uint64_t a = 0, std::uint64_t b = 0) {
  vsched::Worker& w = g_sched.workers[t];
  w.local_state = vsched::mix(vsched::mix(vsched::mix(vsched::mix(0x51, prog), pc), a), b);
  // an API-call boundary: what the thread observed before is summarised by the declared local state
  w.obs_hash = 0;
  w.cycle_hash = 0;
  w.seen_cycles.clear();
}

// ---- monitored lock operations ---------------------------------------------
void on_open(int t, bool opened) {
  ThreadMon& m = H.mon[static_cast<std::size_t>(t)];
  if (opened) {
    m.open = true;
    m.dirty = H.writers_active > 0;
    if (m.dirty) H.violation("C07/open-while-locked", "a read section was opened while a write guard was active");
  }
}

void on_check(int t, bool ok, bool obsolete_at_invocation, const char* what) {
  ThreadMon& m = H.mon[static_cast<std::size_t>(t)];
  if (ok && m.dirty) H.violation("C07/validated-overlap", std::string(what) + " reported success although a writer held the lock since the section was opened");
  if (ok && obsolete_at_invocation) H.violation("C07/check-after-obsolete", std::string(what) + " reported success on a lock that had been made obsolete before the call");
  if (m.dirty) H.exec_overlap = true;
}

void on_upgrade(int t, bool ok, bool obsolete_at_invocation) {
  ThreadMon& m = H.mon[static_cast<std::size_t>(t)];
  m.open = false;
  if (!ok) return;
  if (m.dirty) H.violation("C07/upgrade-after-writer", "an upgrade succeeded although another writer acquired the lock since the section was opened");
  if (obsolete_at_invocation) H.violation("C07/upgrade-after-obsolete", "an upgrade succeeded on a lock that had been made obsolete before the call");
  if (H.writers_active > 0) H.violation("C07/two-writers", "two write guards are active on one lock at the same time");
  ++H.writers_active;
  for (auto& o : H.mon)
    if (o.open) o.dirty = true;
}

void on_unlock(int, bool make_obsolete) {
  --H.writers_active;
  if (make_obsolete) H.obsolete = true;
}

std::uint64_t g_next_value = 0;

// One read section: returns false if it could not be opened.
void prog_read(int t, std::uint64_t pid, bool check_in_between) {
  Shared& s = *H.sh;
  declare(t, pid, 0);
  const bool obs0 = H.obsolete;
  auto rcs = s.lock.try_read_lock();
  const bool opened = !rcs.must_restart();
  if (obs0 && opened) H.violation("C07/open-after-obsolete", "a read section was opened on a lock that had been made obsolete before the call");
  on_open(t, opened);
  H.log << "T" << t << (opened ? ":open " : ":open-refused ");
  if (!opened) return;
  declare(t, pid, 1, rcs.get());
  const std::uint64_t vx = s.x.load();
  bool ok1 = true;
  if (check_in_between) {
    declare(t, pid, 2, rcs.get(), vx);
    const bool ob = H.obsolete;
    ok1 = rcs.check();
    on_check(t, ok1, ob, "check");
    H.log << "T" << t << (ok1 ? ":check-ok " : ":check-fail ");
    if (!ok1) {
      H.mon[static_cast<std::size_t>(t)].open = false;
      return;
    }
  }
  declare(t, pid, 3, rcs.get(), vx);
  const std::uint64_t vy = s.y.load();
  declare(t, pid, 4, rcs.get(), vx * 1000003U + vy);
  const bool ob = H.obsolete;
  const bool ok = rcs.try_read_unlock();
  on_check(t, ok, ob, "unlock");
  H.mon[static_cast<std::size_t>(t)].open = false;
  H.log << "T" << t << (ok ? ":unlock-ok(" : ":unlock-fail(") << vx << "," << vy << ") ";
  if (ok && vy != vx + 1) H.violation("C07/torn-read", "a validated read section saw values that no single version held");
}

void prog_write(int t, std::uint64_t pid, bool read_first, bool make_obsolete) {
  Shared& s = *H.sh;
  declare(t, pid, 0);
  const bool obs0 = H.obsolete;
  auto rcs = s.lock.try_read_lock();
  const bool opened = !rcs.must_restart();
  if (obs0 && opened) H.violation("C07/open-after-obsolete", "a read section was opened on a lock that had been made obsolete before the call");
  on_open(t, opened);
  H.log << "T" << t << (opened ? ":open " : ":open-refused ");
  if (!opened) return;
  std::uint64_t vx = 0;
  if (read_first) {
    declare(t, pid, 1, rcs.get());
    vx = s.x.load();
  }
  declare(t, pid, 2, rcs.get(), vx);
  const bool ob = H.obsolete;
  optimistic_lock::write_guard wg{std::move(rcs)};
  const bool ok = !wg.must_restart();
  on_upgrade(t, ok, ob);
  H.log << "T" << t << (ok ? ":upgrade-ok " : ":upgrade-fail ");
  if (!ok) return;
  const std::uint64_t v = read_first ? vx + 100 : (static_cast<std::uint64_t>(t) + 1) * 1000 + (pid & 0xFF);
  declare(t, pid, 3, v);
  s.x = v;
  declare(t, pid, 4, v);
  s.y = v + 1;
  declare(t, pid, 5, v);
  if (make_obsolete) wg.unlock_and_obsolete();
  else wg.unlock();
  on_unlock(t, make_obsolete);
  H.log << "T" << t << (make_obsolete ? ":unlock-obsolete " : ":unlock ");
}

// rehydrate a version saved earlier (here: the version seen at the start) and check it
void prog_rehydrate(int t, std::uint64_t pid) {
  Shared& s = *H.sh;
  declare(t, pid, 0);
  const bool obs0 = H.obsolete;
  auto rcs = s.lock.try_read_lock();
  const bool opened = !rcs.must_restart();
  if (obs0 && opened) H.violation("C07/open-after-obsolete", "a read section was opened on a lock that had been made obsolete before the call");
  on_open(t, opened);
  if (!opened) return;
  const auto saved = rcs.get();
  declare(t, pid, 1, saved);
  const bool ob1 = H.obsolete;
  const bool ok1 = rcs.try_read_unlock();
  on_check(t, ok1, ob1, "unlock");
  // the section stays logically open for the rehydrated copy: dirty keeps accumulating
  declare(t, pid, 2, saved);
  auto again = s.lock.rehydrate_read_lock(saved);
  declare(t, pid, 3, saved);
  const bool ob2 = H.obsolete;
  const bool ok2 = again.check();
  on_check(t, ok2, ob2, "check of a rehydrated section");
  H.mon[static_cast<std::size_t>(t)].open = false;
  H.log << "T" << t << (ok2 ? ":rehydrate-ok " : ":rehydrate-fail ");
}

std::uint64_t prog_id(const std::string& p) {
  std::uint64_t h = 7;
  for (char c : p) h = h * 131 + static_cast<unsigned char>(c);
  return h;
}

void worker_main(int t) {
  g_sched.worker_enter(t);
  std::uint64_t k = 0;
  for (const auto& p : H.progs[static_cast<std::size_t>(t)]) {
    const std::uint64_t pid = prog_id(p) * 17 + (++k);
    if (p == "Rd") prog_read(t, pid, true);
    else if (p == "Rd2") prog_read(t, pid, false);
    else if (p == "Wr") prog_write(t, pid, false, false);
    else if (p == "WrO") prog_write(t, pid, false, true);
    else if (p == "Up") prog_write(t, pid, true, false);
    else if (p == "Re") prog_rehydrate(t, pid);
    else std::_Exit(vsched::EXIT_USAGE);
  }
  declare(t, 0xE0D, 0);
  g_sched.worker_finish();
}

std::unordered_set<std::uint64_t> g_visited;

bool run_one(const std::vector<std::uint8_t>& prefix, const std::vector<vsched::PointRec>& expected) {
  const int n = static_cast<int>(H.progs.size());
  H.sh = std::make_unique<Shared>();
  H.writers_active = 0;
  H.obsolete = false;
  H.mon.assign(static_cast<std::size_t>(n), ThreadMon{});
  H.log.str("");
  H.exec_overlap = false;
  g_next_value = 0;
  g_sched.begin_execution(n, &prefix, &expected);
  for (int t = 0; t < n; ++t) declare(t, 0xB16, 0);
  g_pool.dispatch(n);
  g_sched.run();
  g_pool.wait_idle(n);
  if (H.writers_active != 0) H.violation("C07/guard-leak", "a write guard is still active after all threads finished");
  const auto w = H.sh->lock.version.version.load();
  if (!H.obsolete && (w & 3U) != 0) H.violation("C07/word-left-locked", "the lock word is locked or obsolete after all guards were released");
  if (H.obsolete && w != 1U) H.violation("C07/obsolete-not-final", "the lock word changed after the lock was made obsolete");
  std::string oc = H.log.str();
  if (H.exec_overlap) oc += "|overlap";
  if (H.outcomes.insert(oc).second) {
    if (H.exec_overlap) ++H.interesting;
    if (H.samples.size() < 3 && H.exec_overlap) H.samples.push_back(vsched::choices_to_string(g_sched.trace) + " => " + oc);
  }
  return H.violations_total < 200;
}

std::vector<std::string> split(const std::string& s, char c) {
  std::vector<std::string> out;
  std::string cur;
  for (char ch : s) {
    if (ch == c) {
      out.push_back(cur);
      cur.clear();
    } else {
      cur += ch;
    }
  }
  out.push_back(cur);
  return out;
}

}  // namespace

int main(int argc, char** argv) {
  std::string out_path, progress_path, replay;
  unsigned bound = 1000, shard = 0, nshards = 1;
  std::uint64_t max_exec = ~std::uint64_t{0};
  bool have_replay = false, closure = false;
  for (int i = 1; i < argc; ++i) {
    const std::string a = argv[i];
    auto next = [&]() -> std::string {
      if (i + 1 >= argc) std::exit(vsched::EXIT_USAGE);
      return argv[++i];
    };
    if (a == "--id") H.id = next();
    else if (a == "--thread") H.progs.push_back(split(next(), ','));
    else if (a == "--bound") bound = static_cast<unsigned>(std::stoul(next()));
    else if (a == "--closure") closure = true;
    else if (a == "--shard") {
      const auto f = split(next(), '/');
      shard = static_cast<unsigned>(std::stoul(f.at(0)));
      nshards = static_cast<unsigned>(std::stoul(f.at(1)));
    } else if (a == "--max-exec") max_exec = std::stoull(next());
    else if (a == "--delay-bounded") g_sched.free_alt_cost = 1;
    else if (a == "--out") out_path = next();
    else if (a == "--progress") progress_path = next();
    else if (a == "--init") next();
    else if (a == "--replay") {
      replay = next();
      have_replay = true;
    } else {
      std::fprintf(stderr, "unknown arg %s\n", a.c_str());
      return vsched::EXIT_USAGE;
    }
  }
  if (H.progs.empty() || H.progs.size() > 4) return vsched::EXIT_USAGE;
  vsched::progress_open(progress_path.empty() ? nullptr : progress_path.c_str());
  std::snprintf(vsched::g_progress->scenario, sizeof(vsched::g_progress->scenario), "%s", H.id.c_str());
  g_sched.cb = &H;
  g_sched.use_private_blocks = false;
  g_pool.body = worker_main;
  if (closure && !have_replay) {
    g_sched.closure_mode = true;
    g_sched.visited = &g_visited;
    bound = 100000;
  }

  vsched::ExploreStats st;
  if (have_replay) {
    const auto pfx = vsched::choices_from_string(replay);
    const std::vector<vsched::PointRec> none;
    run_one(pfx, none);
    st.executions = 1;
    st.points = g_sched.npoints;
    st.tree_nodes = g_sched.trace.size();
    std::fprintf(stderr, "replay: %s\n", H.log.str().c_str());
  } else {
    st = vsched::explore(bound, shard, nshards, max_exec, run_one);
  }

  jsonw::Obj o;
  o.str("scenario", H.id);
  o.num("bound", bound);
  o.boolean("closure", closure);
  o.num("shard", shard);
  o.num("nshards", nshards);
  o.boolean("complete", st.complete);
  o.num("executions", st.executions);
  o.num("points", st.points);
  o.num("tree_nodes", closure ? g_visited.size() : st.tree_nodes);
  o.num("fingerprints", g_visited.size());
  o.num("cuts", g_sched.cut_count);
  o.num("max_trace", st.max_trace);
  {
    std::string s = "[";
    for (int i = 0; i < 16; ++i) s += (i ? "," : "") + std::to_string(st.by_preemptions[i]);
    o.raw("by_preemptions", s + "]");
  }
  o.num("distinct_outcomes", H.outcomes.size());
  o.num("overlapping_outcomes", H.interesting);
  o.num("frees_in_concurrent_phase", 0);
  o.num("violations_total", H.violations_total);
  {
    jsonw::Arr a;
    for (const auto& v : H.violations) {
      jsonw::Obj vo;
      vo.str("property", v.property);
      vo.str("signature", v.signature);
      vo.str("what", v.what);
      vo.str("choices", v.choices);
      vo.num("preemptions", v.preemptions);
      a.raw(vo.done());
    }
    o.raw("violations", a.done());
  }
  {
    jsonw::Arr a;
    for (const auto& l : H.samples) a.str(l);
    o.raw("samples", a.done());
  }
  const std::string js = o.done();
  if (out_path.empty()) {
    std::puts(js.c_str());
    std::fflush(stdout);
  } else {
    FILE* f = std::fopen(out_path.c_str(), "w");
    if (!f) return vsched::EXIT_USAGE;
    std::fputs(js.c_str(), f);
    std::fclose(f);
  }
  std::_Exit(0);
}
