// Engine A runner for QSBR alone (no tree): C05 (never frees what a
// registered thread may still reference) and C06 (every deferred
// deallocation runs exactly once, within three quiescent rounds; thread count
// bookkeeping).
//
// Thread programs over: Q quiescent state, R unpublish+retire the next
// published object, A allocate+publish an object, P pause, U resume (first
// op of a thread that starts unregistered = thread start), X exit (pause and
// stop), W wait until every other thread finished its program.
#include "global.hpp"

#include <algorithm>
#include <array>
#include <cstdint>
#include <cstdio>
#include <cstring>
#include <map>
#include <memory>
#include <set>
#include <sstream>
#include <string>
#include <vector>

#include "heap.hpp"
#include "qsbr.hpp"

#include "../common/jsonw.hpp"
#include "sched.hpp"

using vsched::g_sched;

namespace {

constexpr std::size_t kObjSize = 32;

struct Scenario {
  std::string id;
  std::vector<std::string> progs;  // one string of op letters per thread
};

struct Obj {
  void* p = nullptr;
  bool published = false;
  bool retired = false;
  int requester = -1;
  bool freed = false;
  int id = 0;
};

struct Violation {
  std::string property, signature, what, choices;
  unsigned preemptions = 0;
};

struct Harness final : vsched::HarnessCallbacks {
  Scenario sc;
  int n = 0;
  std::vector<Obj> objs;
  std::map<void*, int> by_ptr;
  std::vector<std::set<int>> mayhold;  // per thread: object ids
  std::vector<bool> registered;        // by completed calls
  std::vector<bool> program_done;
  int inflight = 0;                    // P/U/X/start calls in flight
  long expected_count = 0;
  bool concurrent = false;
  bool in_drain = false;
  std::ostringstream log;
  std::vector<Violation> violations;
  std::uint64_t violations_total = 0;
  std::set<std::string> outcomes;
  std::uint64_t interesting_outcomes = 0;
  std::vector<std::string> sample_logs;
  std::uint64_t frees_while_others_registered = 0;
  std::uint64_t total_frees = 0, total_retires = 0, count_checks = 0;
  bool exec_had_concurrent_free = false;

  void violation(const std::string& prop, const std::string& sig, const std::string& what) {
    ++violations_total;
    if (violations.size() < 20) {
      Violation v;
      v.property = prop;
      v.signature = sig;
      v.what = what + " :: " + log.str();
      v.choices = vsched::choices_to_string(g_sched.trace);
      v.preemptions = g_sched.preemptions;
      violations.push_back(v);
    }
  }

  void on_alloc(int, void*, std::size_t) override {}

  void on_free(int tid, void* p) override {
    auto it = by_ptr.find(p);
    if (it == by_ptr.end()) return;
    Obj& o = objs[static_cast<std::size_t>(it->second)];
    log << "free(o" << o.id << ")by T" << tid << " ";
    ++total_frees;
    if (o.freed) {
      // a real double free follows; report through the fatal path
      g_sched.fatal(vsched::EXIT_ORACLE_FATAL, "oracle C06: deferred deallocation executed twice");
    }
    if (!o.retired) g_sched.fatal(vsched::EXIT_ORACLE_FATAL, "oracle C06: object freed that was never retired");
    o.freed = true;
    bool others_registered = false;
    for (int u = 0; u < n; ++u) {
      if (u == o.requester) continue;
      if (registered[static_cast<std::size_t>(u)]) others_registered = true;
      if (mayhold[static_cast<std::size_t>(u)].count(o.id)) {
        std::ostringstream os;
        os << "object o" << o.id << " retired by T" << o.requester << " was freed (by T" << tid << ") while T" << u
           << " is registered and has not passed a quiescent state, pause or exit since it could take a reference";
        violation("C05", "C05/freed-while-held", os.str());
      }
    }
    if (others_registered && concurrent) {
      ++frees_while_others_registered;
      exec_had_concurrent_free = true;
    }
  }

  void on_access(int, unsigned, const volatile void*, unsigned) override {
    if (!concurrent || inflight != 0) return;
    const auto st = unodb::qsbr::instance().state.load(std::memory_order_relaxed);
    const long cnt = static_cast<long>(unodb::qsbr_state::get_thread_count(st));
    ++count_checks;
    if (cnt != expected_count) {
      std::ostringstream os;
      os << "registered-thread count reported by QSBR is " << cnt << " but " << expected_count
         << " threads are started-or-resumed and not paused-or-exited (no start/exit/pause/resume in flight)";
      violation("C06", "C06/thread-count", os.str());
    }
  }
};

Harness H;
std::array<std::unique_ptr<unodb::qsbr_per_thread>, vsched::Scheduler::kMaxThreads> g_instances;
vsched::Pool g_pool;
int g_drain_turn = 0;  // harness state, read by blocking-wait predicates

void reset_qsbr() {
  auto& q = unodb::qsbr::instance();
  auto& me = unodb::this_thread();
  if (me.is_qsbr_paused()) me.qsbr_resume();
  const auto st = q.state.load();
  if (unodb::qsbr_state::get_thread_count(st) != 1 || q.orphaned_previous_interval_dealloc_requests.load() != nullptr ||
      q.orphaned_current_interval_dealloc_requests.load() != nullptr || !me.previous_interval_dealloc_requests.empty() ||
      !me.current_interval_dealloc_requests.empty()) {
    // the previous execution (its schedule is still in g_sched.trace) left QSBR in a state that a correct implementation
    // cannot be in after every worker left and the controller quiesced twice
    g_sched.fatal(vsched::EXIT_ORACLE_FATAL,
                  "oracle C06: QSBR is not idle after all threads left (thread count, orphan lists or pending requests are off)");
  }
  q.state.store((std::uint64_t{1} << 32U) | 1U);
  me.last_seen_quiescent_state_epoch = unodb::qsbr_epoch{0};
  me.last_seen_epoch = unodb::qsbr_epoch{0};
  me.quiescent_states_since_epoch_change = 0;
}

std::set<int> published_now() {
  std::set<int> s;
  for (const auto& o : H.objs)
    if (o.published) s.insert(o.id);
  return s;
}

int new_object(bool publish_now) {
  void* p = unodb::detail::allocate_aligned(kObjSize);
  std::memset(p, 0xAB, kObjSize);
  Obj o;
  o.p = p;
  o.id = static_cast<int>(H.objs.size());
  o.published = publish_now;
  H.objs.push_back(o);
  H.by_ptr[p] = o.id;
  return o.id;
}

// ---- operations (worker context) ------------------------------------------
void harness_store_point(const void* addr) {
  vsched::Worker* w = vsched::tl_worker;
  if (w != nullptr && vsched::tl_passthru == 0) g_sched.point(*w, vsched::HK_HARNESS_STORE, addr, 8, 0);
}

void op_Q(int t) {
  H.log << "T" << t << ":Q( ";
  H.mayhold[static_cast<std::size_t>(t)].clear();  // from the invocation on, t holds nothing
  unodb::this_thread().quiescent();
  H.mayhold[static_cast<std::size_t>(t)] = published_now();
  H.log << "T" << t << ":Q) ";
}

void op_R(int t) {
  static std::uint64_t dummy;
  harness_store_point(&dummy);  // the unpublish is a shared write
  int pick = -1;
  for (auto& o : H.objs)
    if (o.published) {
      pick = o.id;
      break;
    }
  if (pick < 0) {
    H.log << "T" << t << ":R(none) ";
    return;
  }
  Obj& o = H.objs[static_cast<std::size_t>(pick)];
  o.published = false;
  o.retired = true;
  o.requester = t;
  ++H.total_retires;
  H.log << "T" << t << ":R(o" << pick << " ";
  unodb::this_thread().on_next_epoch_deallocate(o.p
#ifdef UNODB_DETAIL_WITH_STATS
                                                ,
                                                kObjSize
#endif
#ifndef NDEBUG
                                                ,
                                                nullptr
#endif
  );
  H.log << "T" << t << ":R) ";
}

void op_A(int t) {
  static std::uint64_t dummy;
  int id;
  {
    vsched::PassThru pt;
    id = new_object(false);
  }
  harness_store_point(&dummy);  // the publication is a shared write
  H.objs[static_cast<std::size_t>(id)].published = true;
  for (int u = 0; u < H.n; ++u)
    if (H.registered[static_cast<std::size_t>(u)]) H.mayhold[static_cast<std::size_t>(u)].insert(id);
  H.log << "T" << t << ":A(o" << id << ") ";
}

void op_P(int t, const char* name) {
  H.log << "T" << t << ":" << name << "( ";
  H.mayhold[static_cast<std::size_t>(t)].clear();
  H.registered[static_cast<std::size_t>(t)] = false;
  ++H.inflight;
  unodb::this_thread().qsbr_pause();
  --H.inflight;
  --H.expected_count;
  H.log << "T" << t << ":" << name << ") ";
}

void op_U(int t) {
  H.log << "T" << t << ":U( ";
  ++H.inflight;
  if (unodb::qsbr_per_thread::current_thread_instance == nullptr) {
    // thread start: construct (and thereby register) the per-thread instance
    unodb::qsbr_per_thread::current_thread_instance = std::make_unique<unodb::qsbr_per_thread>();
  } else {
    unodb::this_thread().qsbr_resume();
  }
  --H.inflight;
  ++H.expected_count;
  H.registered[static_cast<std::size_t>(t)] = true;
  H.mayhold[static_cast<std::size_t>(t)] = published_now();
  H.log << "T" << t << ":U) ";
}

// barrier k is passed once every thread whose program contains at least k barriers has arrived at its k-th one (or has
// finished its program); barriers let a program family reach deep QSBR states (several completed rounds) without spending
// scheduling deviations on the way there
std::vector<int> g_barriers_arrived;  // per thread
std::vector<int> g_barriers_total;    // per thread: number of B in its program
bool barrier_open(int k) {
  for (int u = 0; u < H.n; ++u)
    if (g_barriers_total[static_cast<std::size_t>(u)] >= k && g_barriers_arrived[static_cast<std::size_t>(u)] < k &&
        !H.program_done[static_cast<std::size_t>(u)])
      return false;
  return true;
}

bool others_done(int t) {
  for (int u = 0; u < H.n; ++u)
    if (u != t && !H.program_done[static_cast<std::size_t>(u)]) return false;
  return true;
}

bool all_done() {
  for (int u = 0; u < H.n; ++u)
    if (!H.program_done[static_cast<std::size_t>(u)]) return false;
  return true;
}

// Deterministic drain, one thread at a time in ascending id order, driven by
// blocking waits on g_drain_turn (never a choice point: exactly one thread is
// enabled at any time).
void drain(int t) {
  const bool reg = H.registered[static_cast<std::size_t>(t)];
  auto my_turn = [t](int round) {
    return [t, round] { return g_drain_turn == round * H.n + t; };
  };
  // rounds 0,1,2: every still-registered thread quiesces once per round
  for (int round = 0; round < 3; ++round) {
    g_sched.wait_until(my_turn(round));
    if (reg) op_Q(t);
    ++g_drain_turn;
  }
  // after round 3 (checked by the thread with the last turn of round 2)
  if (t == H.n - 1) {
    bool any_reg = false;
    for (int u = 0; u < H.n; ++u) any_reg = any_reg || H.registered[static_cast<std::size_t>(u)];
    if (any_reg) {
      for (const auto& o : H.objs)
        if (o.retired && !o.freed) {
          std::ostringstream os;
          os << "object o" << o.id << " retired by T" << o.requester
             << " is still not freed after three consecutive rounds in which every registered thread quiesced";
          H.violation("C06", "C06/not-freed-in-three-rounds", os.str());
          break;
        }
    }
  }
  // round 3: all but the first registered thread leave
  g_sched.wait_until(my_turn(3));
  int survivor = -1;
  for (int u = 0; u < H.n; ++u)
    if (H.registered[static_cast<std::size_t>(u)]) {
      survivor = u;
      break;
    }
  if (reg && t != survivor) op_P(t, "X");
  ++g_drain_turn;
  // round 4: the survivor quiesces twice, then nothing may be pending anywhere
  g_sched.wait_until(my_turn(4));
  if (t == survivor) {
    op_Q(t);
    op_Q(t);
    auto& q = unodb::qsbr::instance();
    auto& me = unodb::this_thread();
    bool pending = !me.previous_interval_dealloc_requests.empty() || !me.current_interval_dealloc_requests.empty() ||
                   q.orphaned_previous_interval_dealloc_requests.load() != nullptr ||
                   q.orphaned_current_interval_dealloc_requests.load() != nullptr;
    for (const auto& o : H.objs)
      if (o.retired && !o.freed) pending = true;
    if (pending)
      H.violation("C06", "C06/pending-after-drain",
                  "requests still pending after all but one thread unregistered and the remaining thread quiesced twice");
    op_P(t, "X");
  }
  ++g_drain_turn;
}

void worker_main(int t) {
  const std::string& prog = H.sc.progs[static_cast<std::size_t>(t)];
  const bool starts_registered = prog.empty() || prog[0] != 'U';
  if (starts_registered)
    unodb::qsbr_per_thread::current_thread_instance = std::move(g_instances[static_cast<std::size_t>(t)]);
  else
    unodb::qsbr_per_thread::current_thread_instance.reset();
  g_sched.worker_enter(t);
  bool exited = false;
  for (char c : prog) {
    if (exited) break;
    switch (c) {
      case 'Q':
        op_Q(t);
        break;
      case 'R':
        op_R(t);
        break;
      case 'A':
        op_A(t);
        break;
      case 'P':
        op_P(t, "P");
        break;
      case 'U':
        op_U(t);
        break;
      case 'X':
        if (H.registered[static_cast<std::size_t>(t)]) op_P(t, "X");
        exited = true;
        break;
      case 'W':
        H.log << "T" << t << ":W ";
        g_sched.wait_until([t] { return others_done(t); });
        break;
      case 'B': {
        const int k = ++g_barriers_arrived[static_cast<std::size_t>(t)];
        H.log << "T" << t << ":B" << k << " ";
        g_sched.wait_until([k] { return barrier_open(k); });
        break;
      }
      default:
        std::_Exit(vsched::EXIT_USAGE);
    }
  }
  H.program_done[static_cast<std::size_t>(t)] = true;
  g_sched.wait_until([] { return all_done(); });
  if (!H.in_drain) {
    H.in_drain = true;
    H.concurrent = false;  // the drain is sequential by construction
    H.log << "| drain: ";
  }
  drain(t);
  // leave QSBR for good (what the thread-local destructor would do)
  if (unodb::qsbr_per_thread::current_thread_instance != nullptr && !unodb::this_thread().is_qsbr_paused()) op_P(t, "X");
  g_sched.worker_finish();
}

bool valid_program(const std::string& p) {
  bool reg = p.empty() || p[0] != 'U';
  for (std::size_t i = 0; i < p.size(); ++i) {
    const char c = p[i];
    if (c == 'X') return i + 1 == p.size();
    if (c == 'U') {
      if (reg) return false;
      reg = true;
    } else if (c == 'P') {
      if (!reg) return false;
      reg = false;
    } else if (c == 'Q' || c == 'R' || c == 'A') {
      if (!reg) return false;
    } else if (c != 'W' && c != 'B') {
      return false;
    }
  }
  return true;
}

bool run_one(const std::vector<std::uint8_t>& prefix, const std::vector<vsched::PointRec>& expected) {
  reset_qsbr();
  H.n = static_cast<int>(H.sc.progs.size());
  const auto n = static_cast<std::size_t>(H.n);
  H.objs.clear();
  H.by_ptr.clear();
  H.mayhold.assign(n, {});
  H.registered.assign(n, false);
  H.program_done.assign(n, false);
  H.inflight = 0;
  H.in_drain = false;
  H.exec_had_concurrent_free = false;
  H.log.str("");
  g_drain_turn = 0;
  g_barriers_arrived.assign(n, 0);
  g_barriers_total.assign(n, 0);
  for (std::size_t i = 0; i < n; ++i)
    g_barriers_total[i] = static_cast<int>(std::count(H.sc.progs[i].begin(), H.sc.progs[i].end(), 'B'));
  // one pre-published object per R in the programs
  std::size_t nr = 0;
  for (const auto& p : H.sc.progs) nr += static_cast<std::size_t>(std::count(p.begin(), p.end(), 'R'));
  for (std::size_t i = 0; i < nr; ++i) new_object(true);
  g_sched.begin_execution(H.n, &prefix, &expected);
  H.expected_count = 0;
  for (int t = 0; t < H.n; ++t) {
    const std::string& p = H.sc.progs[static_cast<std::size_t>(t)];
    if (p.empty() || p[0] != 'U') {
      g_instances[static_cast<std::size_t>(t)] = std::make_unique<unodb::qsbr_per_thread>();
      H.registered[static_cast<std::size_t>(t)] = true;
      H.mayhold[static_cast<std::size_t>(t)] = published_now();
      ++H.expected_count;
    }
  }
  g_pool.dispatch(H.n);
  unodb::this_thread().qsbr_pause();
  H.concurrent = true;
  g_sched.run();
  g_pool.wait_idle(H.n);
  H.concurrent = false;
  unodb::this_thread().qsbr_resume();
  unodb::this_thread().quiescent();
  unodb::this_thread().quiescent();
  // nothing may be pending anywhere, every retired object freed exactly once
  {
    auto& q = unodb::qsbr::instance();
    auto& me = unodb::this_thread();
    bool pending = !me.previous_interval_dealloc_requests.empty() || !me.current_interval_dealloc_requests.empty() ||
                   q.orphaned_previous_interval_dealloc_requests.load() != nullptr ||
                   q.orphaned_current_interval_dealloc_requests.load() != nullptr;
    for (const auto& o : H.objs)
      if (o.retired && !o.freed) pending = true;
    if (pending) H.violation("C06", "C06/lost-request", "a deferred deallocation request was lost: still pending or never executed after every thread left and the last one quiesced twice");
    const auto st = q.state.load();
    if (unodb::qsbr_state::get_thread_count(st) != 1) H.violation("C06", "C06/thread-count-final", "registered-thread count after all worker threads left is not 1");
    // leave nothing behind for the next execution (whatever is wrong has been reported above)
    me.previous_interval_dealloc_requests.clear();
    me.current_interval_dealloc_requests.clear();
    q.orphaned_previous_interval_dealloc_requests.store(nullptr);
    q.orphaned_current_interval_dealloc_requests.store(nullptr);
    q.state.store((std::uint64_t{1} << 32U) | 1U);
  }
  // release objects that were never retired
  for (auto& o : H.objs)
    if (!o.retired) {
      H.by_ptr.erase(o.p);
      unodb::detail::free_aligned(o.p);
    }
  // outcome bookkeeping: which frees happened where in the log
  std::string oc = H.log.str();
  if (H.exec_had_concurrent_free) oc += "|cf";
  if (H.outcomes.insert(oc).second) {
    if (H.exec_had_concurrent_free) ++H.interesting_outcomes;
    if (H.sample_logs.size() < 3 && H.exec_had_concurrent_free) H.sample_logs.push_back(vsched::choices_to_string(g_sched.trace) + " => " + oc);
  }
  return H.violations_total < 200;
}

std::vector<std::string> split(const std::string& s, char c) {
  std::vector<std::string> out;
  std::string cur;
  for (char ch : s) {
    if (ch == c) {
      out.push_back(cur);
      cur.clear();
    } else {
      cur += ch;
    }
  }
  out.push_back(cur);
  return out;
}

}  // namespace

int main(int argc, char** argv) {
  std::string out_path, progress_path, replay;
  unsigned bound = 2, shard = 0, nshards = 1;
  std::uint64_t max_exec = ~std::uint64_t{0};
  bool have_replay = false;
  for (int i = 1; i < argc; ++i) {
    const std::string a = argv[i];
    auto next = [&]() -> std::string {
      if (i + 1 >= argc) std::exit(vsched::EXIT_USAGE);
      return argv[++i];
    };
    if (a == "--id") H.sc.id = next();
    else if (a == "--thread") {
      std::string p = next();
      if (p == "-") p.clear();
      H.sc.progs.push_back(p);
    } else if (a == "--bound") bound = static_cast<unsigned>(std::stoul(next()));
    else if (a == "--shard") {
      const auto f = split(next(), '/');
      shard = static_cast<unsigned>(std::stoul(f.at(0)));
      nshards = static_cast<unsigned>(std::stoul(f.at(1)));
    } else if (a == "--max-exec") max_exec = std::stoull(next());
    else if (a == "--delay-bounded") g_sched.free_alt_cost = 1;
    else if (a == "--out") out_path = next();
    else if (a == "--progress") progress_path = next();
    else if (a == "--replay") {
      replay = next();
      have_replay = true;
    } else if (a == "--init") next();
    else {
      std::fprintf(stderr, "unknown arg %s\n", a.c_str());
      return vsched::EXIT_USAGE;
    }
  }
  if (H.sc.progs.empty() || H.sc.progs.size() > 6) return vsched::EXIT_USAGE;
  for (const auto& p : H.sc.progs)
    if (!valid_program(p)) {
      std::fprintf(stderr, "invalid program %s\n", p.c_str());
      return vsched::EXIT_USAGE;
    }
  vsched::progress_open(progress_path.empty() ? nullptr : progress_path.c_str());
  std::snprintf(vsched::g_progress->scenario, sizeof(vsched::g_progress->scenario), "%s", H.sc.id.c_str());
  g_sched.cb = &H;
  g_sched.use_private_blocks = false;
  g_pool.body = worker_main;

  vsched::ExploreStats st;
  if (have_replay) {
    const auto pfx = vsched::choices_from_string(replay);
    const std::vector<vsched::PointRec> none;
    run_one(pfx, none);
    st.executions = 1;
    st.points = g_sched.npoints;
    st.tree_nodes = g_sched.trace.size();
    std::fprintf(stderr, "replay: %s\n", H.log.str().c_str());
  } else {
    st = vsched::explore(bound, shard, nshards, max_exec, run_one);
  }

  jsonw::Obj o;
  o.str("scenario", H.sc.id);
  o.num("bound", bound);
  o.num("shard", shard);
  o.num("nshards", nshards);
  o.boolean("complete", st.complete);
  o.num("executions", st.executions);
  o.num("points", st.points);
  o.num("tree_nodes", st.tree_nodes);
  o.num("max_trace", st.max_trace);
  {
    std::string s = "[";
    for (int i = 0; i < 16; ++i) s += (i ? "," : "") + std::to_string(st.by_preemptions[i]);
    o.raw("by_preemptions", s + "]");
  }
  o.num("distinct_outcomes", H.outcomes.size());
  o.num("overlapping_outcomes", H.interesting_outcomes);
  o.num("frees_in_concurrent_phase", H.frees_while_others_registered);
  o.num("total_frees", H.total_frees);
  o.num("total_retires", H.total_retires);
  o.num("thread_count_checks", H.count_checks);
  o.num("violations_total", H.violations_total);
  {
    jsonw::Arr a;
    for (const auto& v : H.violations) {
      jsonw::Obj vo;
      vo.str("property", v.property);
      vo.str("signature", v.signature);
      vo.str("what", v.what);
      vo.str("choices", v.choices);
      vo.num("preemptions", v.preemptions);
      a.raw(vo.done());
    }
    o.raw("violations", a.done());
  }
  {
    jsonw::Arr a;
    for (const auto& l : H.sample_logs) a.str(l);
    o.raw("samples", a.done());
  }
  const std::string js = o.done();
  if (out_path.empty()) {
    std::puts(js.c_str());
    std::fflush(stdout);
  } else {
    FILE* f = std::fopen(out_path.c_str(), "w");
    if (!f) return vsched::EXIT_USAGE;
    std::fputs(js.c_str(), f);
    std::fclose(f);
  }
  std::_Exit(0);
}
