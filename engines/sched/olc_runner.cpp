// Engine A runner for the OLC index: C03 (linearizability), C04 (memory
// reclamation safety), C09 (concurrent scans), C14 (no deadlock / no lock left
// behind) and the concurrent clause of C10.
//
// One process explores one scenario (optionally one shard of it).
#include "global.hpp"

#include <algorithm>
#include <array>
#include <cstdint>
#include <cstdio>
#include <cstring>
#include <map>
#include <memory>
#include <optional>
#include <set>
#include <sstream>
#include <string>
#include <thread>
#include <vector>

#include "olc_art.hpp"
#include "qsbr.hpp"

#include "../common/treewalk.hpp"
#include "../common/jsonw.hpp"
#include "sched.hpp"

using vsched::g_sched;
using Db = unodb::olc_db<std::uint64_t, unodb::value_view>;

namespace {

// ---------------------------------------------------------------------------
// scenario
enum OpKind { OP_GET, OP_INSERT, OP_REMOVE, OP_QUIESCE, OP_PAUSE_RESUME, OP_PAUSE, OP_RESUME, OP_BARRIER, OP_SCAN, OP_SCAN_FROM, OP_SCAN_RANGE };

struct Op {
  OpKind kind = OP_GET;
  std::uint64_t k1 = 0, k2 = 0;
  bool fwd = true;
  int halt_after = -1;  // visitor returns true at this many visits (-1: never)
  std::string text;
};

struct Scenario {
  std::string id;
  std::vector<std::uint64_t> init;
  std::vector<std::vector<Op>> threads;
};

std::uint64_t parse_hex(const std::string& s) { return std::stoull(s, nullptr, 16); }

std::vector<std::string> split(const std::string& s, char c) {
  std::vector<std::string> out;
  std::string cur;
  for (char ch : s) {
    if (ch == c) {
      out.push_back(cur);
      cur.clear();
    } else {
      cur += ch;
    }
  }
  out.push_back(cur);
  return out;
}

Op parse_op(const std::string& t) {
  Op op;
  op.text = t;
  auto f = split(t, ':');
  std::size_t n = f.size();
  if (n > 1 && f[n - 1].size() > 1 && f[n - 1][0] == 'h') {
    op.halt_after = std::stoi(f[n - 1].substr(1));
    --n;
  }
  if (f[0] == "g") {
    op.kind = OP_GET;
    op.k1 = parse_hex(f.at(1));
  } else if (f[0] == "i") {
    op.kind = OP_INSERT;
    op.k1 = parse_hex(f.at(1));
  } else if (f[0] == "r") {
    op.kind = OP_REMOVE;
    op.k1 = parse_hex(f.at(1));
  } else if (f[0] == "q") {
    op.kind = OP_QUIESCE;
  } else if (f[0] == "pu") {
    op.kind = OP_PAUSE_RESUME;
  } else if (f[0] == "p") {
    op.kind = OP_PAUSE;
  } else if (f[0] == "u") {
    op.kind = OP_RESUME;
  } else if (f[0] == "b") {
    op.kind = OP_BARRIER;
  } else if (f[0] == "s") {
    op.kind = OP_SCAN;
    op.fwd = f.at(1) == "f";
  } else if (f[0] == "sf") {
    op.kind = OP_SCAN_FROM;
    op.k1 = parse_hex(f.at(1));
    op.fwd = f.at(2) == "f";
  } else if (f[0] == "sr") {
    op.kind = OP_SCAN_RANGE;
    op.k1 = parse_hex(f.at(1));
    op.k2 = parse_hex(f.at(2));
    op.fwd = op.k1 < op.k2;
  } else {
    std::fprintf(stderr, "bad op %s\n", t.c_str());
    std::exit(vsched::EXIT_USAGE);
  }
  (void)n;
  return op;
}

// ---------------------------------------------------------------------------
// values: 8 bytes identifying the creating insert
std::array<std::byte, 8> make_value(unsigned creator, unsigned opidx, std::uint64_t key) {
  std::array<std::byte, 8> v{};
  v[0] = static_cast<std::byte>(creator);
  v[1] = static_cast<std::byte>(opidx);
  for (int i = 0; i < 6; ++i) v[static_cast<std::size_t>(2 + i)] = static_cast<std::byte>((key >> (8 * i)) & 0xFF);
  return v;
}
std::string val_str(const std::array<std::byte, 8>& v) {
  return std::string(reinterpret_cast<const char*>(v.data()), v.size());
}

std::uint64_t key_from_view(unodb::key_view kv) {
  std::uint64_t k = 0;
  for (std::size_t i = 0; i < kv.size() && i < 8; ++i) k = (k << 8) | static_cast<std::uint64_t>(kv[i]);
  return k;
}

// ---------------------------------------------------------------------------
// event log
struct Visit {
  std::uint64_t stamp;
  std::uint64_t key;
  std::string val;
};

struct Event {
  int thread = 0;
  int opidx = 0;
  OpKind kind = OP_GET;
  const Op* op = nullptr;
  std::uint64_t inv = 0, ret = 0;
  bool ok = false;        // insert/remove success, get found
  std::string val;        // get: value bytes; insert: value inserted
  std::vector<Visit> visits;
  bool halted = false;
};

struct Violation {
  std::string property;
  std::string signature;
  std::string what;
  std::string choices;
  unsigned preemptions = 0;
};

struct HeldView {
  const std::byte* p;
  std::size_t n;
  std::string expect;
  std::string origin;
};

// ---------------------------------------------------------------------------
// harness state (one execution at a time)
struct Block {
  std::size_t size;
  bool live;
};

struct Harness final : vsched::HarnessCallbacks {
  Scenario sc;
  Db* db = nullptr;
  bool concurrent_phase = false;
  std::map<std::uintptr_t, Block> blocks;  // all blocks ever seen in this execution
  std::uint64_t frees_in_concurrent_phase = 0;
  std::uint64_t total_frees_in_concurrent_phase = 0;
  std::uint64_t live_bytes = 0;
  std::vector<Event> events;             // completed + in-flight
  std::vector<int> cur_event;            // per thread index into events (or -1)
  std::vector<std::vector<HeldView>> held;  // per thread
  std::vector<int> barriers_arrived, barriers_total;  // per thread
  std::vector<char> thread_done;                       // per thread
  std::vector<Violation> violations;
  std::uint64_t violations_total = 0;
  std::set<std::string> outcomes;  // distinct observed histories
  std::uint64_t overlapping_outcomes = 0;
  std::vector<std::string> sample_logs;

  void on_alloc(int, void* p, std::size_t n) override {
    const auto a = reinterpret_cast<std::uintptr_t>(p);
    blocks[a] = Block{n, true};
    live_bytes += n;
  }

  void on_free(int tid, void* p) override {
    const auto a = reinterpret_cast<std::uintptr_t>(p);
    auto it = blocks.find(a);
    if (it == blocks.end()) return;  // allocated before tracking (none expected)
    if (!it->second.live) oracle_fatal("C04", "double free of a tree block");
    if (concurrent_phase) {
      ++frees_in_concurrent_phase;
      // (3) a block being freed must not be reachable from the root
      const tw::Tree t = tw::walk(*db, true);
      for (const auto& n : t.nodes)
        if (n.addr == a) oracle_fatal("C04", "freed a node that is still reachable from the root");
    }
    (void)tid;
    it->second.live = false;
    live_bytes -= it->second.size;
  }

  void on_access(int, unsigned, const volatile void* addr, unsigned) override {
    // (2) a hooked access must not touch a block that has been freed
    const auto a = reinterpret_cast<std::uintptr_t>(addr);
    auto it = blocks.upper_bound(a);
    if (it == blocks.begin()) return;
    --it;
    if (a < it->first + it->second.size && !it->second.live)
      oracle_fatal("C04", "access to a freed tree block");
  }

  [[noreturn]] void oracle_fatal(const char* prop, const char* what) {
    char buf[240];
    std::snprintf(buf, sizeof buf, "oracle %s: %s", prop, what);
    g_sched.fatal(vsched::EXIT_ORACLE_FATAL, buf);
  }

  void violation(const std::string& prop, const std::string& sig, const std::string& what) {
    ++violations_total;
    if (violations.size() < 20) {
      Violation v;
      v.property = prop;
      v.signature = sig;
      v.what = what;
      v.choices = vsched::choices_to_string(g_sched.trace);
      v.preemptions = g_sched.preemptions;
      violations.push_back(v);
    }
  }
};

Harness H;

// ---------------------------------------------------------------------------
// QSBR reset to a canonical idle state (controller is the only registered
// thread, epoch 0)
void reset_qsbr() {
  auto& q = unodb::qsbr::instance();
  auto& me = unodb::this_thread();
  if (me.is_qsbr_paused()) me.qsbr_resume();
  const auto st = q.state.load();
  if (unodb::qsbr_state::get_thread_count(st) != 1 ||
      q.orphaned_previous_interval_dealloc_requests.load() != nullptr ||
      q.orphaned_current_interval_dealloc_requests.load() != nullptr ||
      !me.previous_interval_dealloc_requests.empty() || !me.current_interval_dealloc_requests.empty()) {
    // cannot happen: check_qsbr_idle() at the end of the previous execution reported and repaired this
    g_sched.fatal(vsched::EXIT_ORACLE_FATAL,
                  "oracle C06: QSBR is not idle after all threads left (thread count, orphan lists or pending requests are off)");
  }
  q.state.store((std::uint64_t{1} << 32U) | 1U);  // epoch 0, 1 thread, 1 in previous
  me.last_seen_quiescent_state_epoch = unodb::qsbr_epoch{0};
  me.last_seen_epoch = unodb::qsbr_epoch{0};
  me.quiescent_states_since_epoch_change = 0;
}

// after every worker left and the controller resumed and quiesced twice, a correct QSBR is idle: one registered thread,
// nothing orphaned, nothing pending.  Anything else is reported as a violation of this execution (so that its schedule
// replays it) and forced back, so that the exploration can go on.
void check_qsbr_idle();

// ---------------------------------------------------------------------------
// worker
void check_held_views(int tid, const char* when) {
  vsched::PassThru pt;
  for (const auto& hv : H.held[static_cast<std::size_t>(tid)]) {
    const std::string now(reinterpret_cast<const char*>(hv.p), hv.n);
    if (now != hv.expect)
      H.violation("C04", "C04/view-changed", std::string("value view obtained by ") + hv.origin + " changed before the reader's quiescent state (" + when + ")");
  }
  H.held[static_cast<std::size_t>(tid)].clear();
}

void begin_event(int tid, int opidx, const Op& op) {
  Event e;
  e.thread = tid;
  e.opidx = opidx;
  e.kind = op.kind;
  e.op = &op;
  H.events.push_back(e);
  H.cur_event[static_cast<std::size_t>(tid)] = static_cast<int>(H.events.size()) - 1;
  vsched::tl_worker->pending_invoke = true;
}

void stamp_invoke(int tid) {
  const int ei = H.cur_event[static_cast<std::size_t>(tid)];
  if (ei >= 0 && H.events[static_cast<std::size_t>(ei)].inv == 0) H.events[static_cast<std::size_t>(ei)].inv = g_sched.stamp();
}

Event& end_event(int tid) {
  vsched::Worker* w = vsched::tl_worker;
  if (w->pending_invoke) {
    w->pending_invoke = false;
    stamp_invoke(tid);
  }
  Event& e = H.events[static_cast<std::size_t>(H.cur_event[static_cast<std::size_t>(tid)])];
  e.ret = g_sched.stamp();
  H.cur_event[static_cast<std::size_t>(tid)] = -1;
  return e;
}

void run_scan(int tid, const Op& op, Event*& ev_out) {
  // the visitor runs inside the scan; record with pass-through
  int visits = 0;
  bool halted = false;
  auto fn = [&](const unodb::visitor<Db::iterator>& v) {
    vsched::PassThru pt;
    const auto kv = v.get_key();
    const auto vv = v.get_value();
    Visit vis;
    vis.stamp = g_sched.stamp();
    vis.key = key_from_view(kv);
    vis.val.assign(reinterpret_cast<const char*>(vv.begin().get()), vv.size());
    Event& e = H.events[static_cast<std::size_t>(H.cur_event[static_cast<std::size_t>(tid)])];
    if (e.inv == 0) e.inv = vis.stamp;  // cannot happen (seek touches the root lock)
    e.visits.push_back(vis);
    H.held[static_cast<std::size_t>(tid)].push_back(HeldView{vv.begin().get(), vv.size(), vis.val, "scan visitor"});
    ++visits;
    if (op.halt_after >= 0 && visits >= op.halt_after) {
      halted = true;
      return true;
    }
    return false;
  };
  switch (op.kind) {
    case OP_SCAN:
      H.db->scan(fn, op.fwd);
      break;
    case OP_SCAN_FROM:
      H.db->scan_from(op.k1, fn, op.fwd);
      break;
    case OP_SCAN_RANGE:
      H.db->scan_range(op.k1, op.k2, fn);
      break;
    default:
      break;
  }
  Event& e = end_event(tid);
  e.halted = halted;
  ev_out = &e;
}

std::array<std::unique_ptr<unodb::qsbr_per_thread>, vsched::Scheduler::kMaxThreads> g_qsbr_instances;
vsched::Pool g_pool;

void worker_main(int tid) {
  // the child half of unodb::qsbr_thread: adopt the instance the parent made
  unodb::qsbr_per_thread::current_thread_instance = std::move(g_qsbr_instances[static_cast<std::size_t>(tid)]);
  g_sched.worker_enter(tid);
  const auto& prog = H.sc.threads[static_cast<std::size_t>(tid)];
  bool paused = false;
  for (std::size_t i = 0; i < prog.size(); ++i) {
    const Op& op = prog[i];
    switch (op.kind) {
      case OP_GET: {
        begin_event(tid, static_cast<int>(i), op);
        auto r = H.db->get(op.k1);
        Event& e = end_event(tid);
        e.ok = r.has_value();
        if (r.has_value()) {
          vsched::PassThru pt;
          const auto sp = *r;
          e.val.assign(reinterpret_cast<const char*>(sp.begin().get()), sp.size());
          H.held[static_cast<std::size_t>(tid)].push_back(HeldView{sp.begin().get(), sp.size(), e.val, "get"});
        }
        break;
      }
      case OP_INSERT: {
        const auto v = make_value(static_cast<unsigned>(tid) + 1, static_cast<unsigned>(i), op.k1);
        begin_event(tid, static_cast<int>(i), op);
        const bool ok = H.db->insert(op.k1, unodb::value_view{v.data(), v.size()});
        Event& e = end_event(tid);
        e.ok = ok;
        e.val = val_str(v);
        break;
      }
      case OP_REMOVE: {
        begin_event(tid, static_cast<int>(i), op);
        const bool ok = H.db->remove(op.k1);
        Event& e = end_event(tid);
        e.ok = ok;
        break;
      }
      case OP_QUIESCE: {
        check_held_views(tid, "quiescent");
        unodb::this_thread().quiescent();
        break;
      }
      case OP_PAUSE_RESUME: {
        // the thread leaves QSBR and comes back (a thread exit followed by a thread start, as far as QSBR is concerned)
        check_held_views(tid, "pause");
        unodb::this_thread().qsbr_pause();
        unodb::this_thread().qsbr_resume();
        break;
      }
      case OP_PAUSE: {
        check_held_views(tid, "pause");
        unodb::this_thread().qsbr_pause();
        paused = true;
        break;
      }
      case OP_RESUME: {
        unodb::this_thread().qsbr_resume();
        paused = false;
        break;
      }
      case OP_BARRIER: {
        // barrier k opens once every thread whose program has at least k barriers has arrived at its k-th one or has
        // finished: deep states are reached without spending scheduling deviations on the way
        const int k = ++H.barriers_arrived[static_cast<std::size_t>(tid)];
        g_sched.wait_until([k] {
          for (std::size_t u = 0; u < H.barriers_total.size(); ++u)
            if (H.barriers_total[u] >= k && H.barriers_arrived[u] < k && !H.thread_done[u]) return false;
          return true;
        });
        break;
      }
      case OP_SCAN:
      case OP_SCAN_FROM:
      case OP_SCAN_RANGE: {
        begin_event(tid, static_cast<int>(i), op);
        Event* e = nullptr;
        run_scan(tid, op, e);
        break;
      }
    }
  }
  check_held_views(tid, "thread end");
  if (!paused) unodb::this_thread().qsbr_pause();  // scheduled: what the TLS destructor would do
  H.thread_done[static_cast<std::size_t>(tid)] = true;
  g_sched.worker_finish();
}

// ---------------------------------------------------------------------------
// oracles (post execution)
using Content = std::map<std::uint64_t, std::string>;

struct LinChecker {
  const std::vector<const Event*>& ops;
  const Content& final_content;
  std::vector<std::vector<int>> preds;
  std::set<std::pair<unsigned, std::string>> dead;  // (mask, content) known to fail

  static std::string ser(const Content& c) {
    std::string s;
    for (const auto& kv : c) {
      s.append(reinterpret_cast<const char*>(&kv.first), 8);
      s += kv.second;
    }
    return s;
  }

  bool dfs(unsigned mask, Content& c) {
    const unsigned n = static_cast<unsigned>(ops.size());
    if (mask == (1U << n) - 1U) return c == final_content;
    const auto key = std::make_pair(mask, ser(c));
    if (dead.count(key)) return false;
    for (unsigned i = 0; i < n; ++i) {
      if (mask & (1U << i)) continue;
      bool ready = true;
      for (int p : preds[i])
        if (!(mask & (1U << static_cast<unsigned>(p)))) {
          ready = false;
          break;
        }
      if (!ready) continue;
      const Event& e = *ops[i];
      auto it = c.find(e.op->k1);
      bool match = false;
      std::optional<std::string> undo_val;
      bool did_insert = false, did_remove = false;
      switch (e.kind) {
        case OP_GET:
          match = e.ok ? (it != c.end() && it->second == e.val) : (it == c.end());
          break;
        case OP_INSERT:
          match = e.ok == (it == c.end());
          if (match && e.ok) {
            c[e.op->k1] = e.val;
            did_insert = true;
          }
          break;
        case OP_REMOVE:
          match = e.ok == (it != c.end());
          if (match && e.ok) {
            undo_val = it->second;
            c.erase(it);
            did_remove = true;
          }
          break;
        default:
          break;
      }
      if (!match) continue;
      const bool ok = dfs(mask | (1U << i), c);
      if (did_insert) c.erase(e.op->k1);
      if (did_remove) c[e.op->k1] = *undo_val;
      if (ok) return true;
    }
    dead.insert(key);
    return false;
  }
};

std::string describe_events() {
  std::ostringstream os;
  for (const auto& e : H.events) {
    os << "T" << e.thread << "." << e.opidx << " " << e.op->text << " [" << e.inv << "," << e.ret << "]";
    if (e.kind == OP_GET) os << (e.ok ? " found c" + std::to_string(static_cast<unsigned char>(e.val[0])) + "." + std::to_string(static_cast<unsigned char>(e.val[1])) : std::string(" miss"));
    if (e.kind == OP_INSERT || e.kind == OP_REMOVE) os << (e.ok ? " ok" : " fail");
    if (e.kind >= OP_SCAN) {
      os << " visits:";
      for (const auto& v : e.visits) os << " " << std::hex << v.key << std::dec << "@" << v.stamp;
      if (e.halted) os << " (halted)";
    }
    os << "; ";
  }
  return os.str();
}

bool in_interval(const Op& op, std::uint64_t k) {
  switch (op.kind) {
    case OP_SCAN:
      return true;
    case OP_SCAN_FROM:
      return op.fwd ? k >= op.k1 : k <= op.k1;
    case OP_SCAN_RANGE:
      if (op.k1 < op.k2) return k >= op.k1 && k < op.k2;
      if (op.k1 > op.k2) return k <= op.k1 && k > op.k2;
      return false;
    default:
      return false;
  }
}

void check_scan(const Event& s, const Content& init) {
  const Op& op = *s.op;
  const bool fwd = op.kind == OP_SCAN_RANGE ? (op.k1 < op.k2) : op.fwd;
  // order + interval
  for (std::size_t i = 0; i < s.visits.size(); ++i) {
    const auto k = s.visits[i].key;
    if (!in_interval(op, k)) {
      H.violation("C09", "C09/outside-interval", "scan delivered a key outside the requested interval: " + describe_events());
      return;
    }
    if (i > 0) {
      const auto p = s.visits[i - 1].key;
      if (fwd ? !(p < k) : !(p > k)) {
        H.violation("C09", "C09/order", "scan delivered keys out of order or twice: " + describe_events());
        return;
      }
    }
  }
  // collect writer ops per key
  auto succ_inserts = [&](std::uint64_t k) {
    std::vector<const Event*> v;
    for (const auto& e : H.events)
      if (e.kind == OP_INSERT && e.ok && e.op->k1 == k) v.push_back(&e);
    return v;
  };
  auto succ_removes = [&](std::uint64_t k) {
    std::vector<const Event*> v;
    for (const auto& e : H.events)
      if (e.kind == OP_REMOVE && e.ok && e.op->k1 == k) v.push_back(&e);
    return v;
  };
  // each delivered entry existed at some moment during the scan
  for (const auto& vis : s.visits) {
    const auto ins = succ_inserts(vis.key);
    const auto rem = succ_removes(vis.key);
    // who created (k, v)?
    const Event* creator = nullptr;
    bool from_init = false;
    auto ii = init.find(vis.key);
    if (ii != init.end() && ii->second == vis.val) from_init = true;
    for (const auto* e : ins)
      if (e->val == vis.val) creator = e;
    if (!from_init && creator == nullptr) {
      H.violation("C09", "C09/phantom-value", "scan delivered a (key,value) that no insert created: " + describe_events());
      return;
    }
    if (creator != nullptr && creator->inv > vis.stamp) {
      H.violation("C09", "C09/future-value", "scan delivered an entry before its insert was invoked: " + describe_events());
      return;
    }
    // removed for certain before the scan began?
    for (const auto* r : rem) {
      if (!(r->ret < s.inv)) continue;
      // entry certainly created before r was invoked?
      const bool created_before = from_init || (creator != nullptr && creator->ret < r->inv);
      if (!created_before) continue;
      // any other entry of this key that r could have removed instead?
      bool other_candidate = false;
      if (!from_init && ii != init.end()) other_candidate = true;
      for (const auto* e : ins)
        if (e != creator && e->inv < r->ret) other_candidate = true;
      if (from_init) {
        // other candidates are inserts only
      }
      if (!other_candidate) {
        H.violation("C09", "C09/stale-entry", "scan delivered an entry removed before the scan was invoked: " + describe_events());
        return;
      }
    }
  }
  // completeness for stable keys, absence for stable-absent keys
  std::set<std::uint64_t> universe;
  for (const auto& kv : init) universe.insert(kv.first);
  for (const auto& e : H.events)
    if (e.kind == OP_INSERT) universe.insert(e.op->k1);
  std::set<std::uint64_t> delivered;
  for (const auto& v : s.visits) delivered.insert(v.key);
  for (const auto k : universe) {
    if (!in_interval(op, k)) continue;
    const auto ins = succ_inserts(k);
    const auto rem = succ_removes(k);
    bool removed_maybe_before_end = false;
    for (const auto* r : rem)
      if (r->inv < s.ret) removed_maybe_before_end = true;
    bool inserted_before_start = false, inserted_maybe_before_end = false;
    for (const auto* e : ins) {
      if (e->ret < s.inv) inserted_before_start = true;
      if (e->inv < s.ret) inserted_maybe_before_end = true;
    }
    const bool in_init = init.count(k) != 0;
    const bool stable_present = !removed_maybe_before_end && (in_init || inserted_before_start);
    bool removed_before_start = false;
    for (const auto* r : rem)
      if (r->ret < s.inv) removed_before_start = true;
    const bool stable_absent = !inserted_maybe_before_end && (!in_init || removed_before_start);
    if (stable_absent && delivered.count(k)) {
      H.violation("C09", "C09/absent-delivered", "scan delivered a key that was absent for its whole duration: " + describe_events());
      return;
    }
    if (stable_present && !delivered.count(k)) {
      // beyond the halt position?
      if (s.halted) {
        if (s.visits.empty()) continue;
        const auto last = s.visits.back().key;
        if (fwd ? k > last : k < last) continue;
      }
      H.violation("C09", "C09/missing-stable-key", "scan missed a key that was present for its whole duration: " + describe_events());
      return;
    }
  }
}

std::size_t g_node_sizes[5];

void post_execution_checks(const Content& init) {
  // final content by raw walk (no operation in flight)
  const tw::Tree t = tw::walk(*H.db);
  Content final_content;
  for (const auto& n : t.nodes)
    if (n.type == 0) {
      std::uint64_t k = 0;
      for (unsigned char c : n.key) k = (k << 8) | c;
      final_content[k] = n.val;
    }
  // C14: no lock left behind
  bool locked = (tw::root_lock_word(*H.db) & 3U) != 0;
  for (const auto& n : t.nodes)
    if ((n.lockword & 3U) != 0) locked = true;
  if (locked) H.violation("C14", "C14/lock-left", "a reachable node or the root is left write-locked/obsolete after all operations returned: " + describe_events());

  // C03: linearizability of the point operations
  std::vector<const Event*> ops;
  for (const auto& e : H.events)
    if (e.kind == OP_GET || e.kind == OP_INSERT || e.kind == OP_REMOVE) ops.push_back(&e);
  bool overlap = false;
  {
    LinChecker lc{ops, final_content, {}, {}};
    lc.preds.resize(ops.size());
    for (std::size_t i = 0; i < ops.size(); ++i)
      for (std::size_t j = 0; j < ops.size(); ++j)
        if (i != j && ops[j]->ret < ops[i]->inv) lc.preds[i].push_back(static_cast<int>(j));
    Content c = init;
    if (!lc.dfs(0, c)) {
      std::string fc;
      for (const auto& kv : final_content) {
        char b[40];
        std::snprintf(b, sizeof b, "%llx ", static_cast<unsigned long long>(kv.first));
        fc += b;
      }
      H.violation("C03", "C03/not-linearizable", "no sequential order explains the results: " + describe_events() + " final={" + fc + "}");
    }
  }
  for (std::size_t i = 0; i < H.events.size(); ++i)
    for (std::size_t j = 0; j < H.events.size(); ++j)
      if (H.events[i].thread != H.events[j].thread && H.events[i].inv < H.events[j].ret && H.events[j].inv < H.events[i].ret) overlap = true;

  // C09
  for (const auto& e : H.events)
    if (e.kind >= OP_SCAN) check_scan(e, init);

  // C10 (concurrent clause): shape, statistics, accounting after the drain
  {
    std::vector<std::pair<std::string, std::string>> kv;
    for (const auto& n : t.nodes)
      if (n.type == 0) kv.emplace_back(n.key, n.val);
    std::sort(kv.begin(), kv.end());
    std::uint64_t counts[5] = {0, 0, 0, 0, 0};
    std::uint64_t bytes = 0;
    std::string canon;
    if (!kv.empty()) tw::canonical(kv, 0, kv.size(), 0, canon, counts, &bytes, g_node_sizes, g_node_sizes[0]);
    else canon = "~";
    const std::string logical = tw::logical_dump(t);
    if (logical != canon) H.violation("C10", "C10/shape", "tree shape after the concurrent phase is not the canonical radix tree of its keys: got " + logical + " want " + canon + " :: " + describe_events());
#ifdef UNODB_DETAIL_WITH_STATS
    const auto nc = H.db->get_node_counts();
    bool stats_ok = H.db->get_current_memory_use() == bytes;
    for (int i = 0; i < 5; ++i) stats_ok = stats_ok && nc[static_cast<std::size_t>(i)] == counts[i];
    if (!stats_ok) H.violation("C10", "C10/stats", "node counts or memory use after the concurrent phase differ from the canonical tree: " + describe_events());
    // growing / shrinking counters move only when an inner node is created, replaced by one of another class, or dissolved:
    // then, at any quiescent moment, count[c] = grown-into[c] - grown-out-of[c] + shrunk-into[c] - shrunk-out-of[c]
    // (growing[c] counts nodes that became class c, shrinking[c] nodes of class c that were shrunk or dissolved)
    {
      const auto g = H.db->get_growing_inode_counts();
      const auto sh = H.db->get_shrinking_inode_counts();
      bool ident = true;
      for (std::size_t c = 0; c < 4; ++c) {
        const std::int64_t want = static_cast<std::int64_t>(g[c]) - (c + 1 < 4 ? static_cast<std::int64_t>(g[c + 1]) : 0) +
                                  (c + 1 < 4 ? static_cast<std::int64_t>(sh[c + 1]) : 0) - static_cast<std::int64_t>(sh[c]);
        if (want != static_cast<std::int64_t>(nc[c + 1])) ident = false;
      }
      if (!ident) {
        std::ostringstream os;
        os << "growing/shrinking counters moved without an inner node being created, replaced or dissolved: growing={" << g[0] << "," << g[1] << ","
           << g[2] << "," << g[3] << "} shrinking={" << sh[0] << "," << sh[1] << "," << sh[2] << "," << sh[3] << "} inner node counts={" << nc[1] << ","
           << nc[2] << "," << nc[3] << "," << nc[4] << "} :: ";
        H.violation("C10", "C10/grow-shrink-identity", os.str() + describe_events());
      }
    }
    if (H.live_bytes != H.db->get_current_memory_use()) H.violation("C10", "C10/held-bytes", "bytes held from the allocator differ from reported memory use after the drain (leak or lost accounting): held=" + std::to_string(H.live_bytes) + " reported=" + std::to_string(H.db->get_current_memory_use()) + " :: " + describe_events());
#endif
    // C04 (5): live blocks == reachable nodes
    std::set<std::uintptr_t> reach;
    for (const auto& n : t.nodes) reach.insert(n.addr);
    for (const auto& b : H.blocks) {
      if (b.second.live && !reach.count(b.first)) {
        H.violation("C04", "C04/leak", "a block unlinked from the tree was never freed: " + describe_events());
        break;
      }
      if (!b.second.live && reach.count(b.first)) {
        H.violation("C04", "C04/reachable-freed", "a freed block is reachable from the root after the drain: " + describe_events());
        break;
      }
    }
  }

  // outcome bookkeeping
  std::string oc = describe_events();
  // strip stamps for the outcome identity: results only
  std::string id;
  for (const auto& e : H.events) {
    id += "T" + std::to_string(e.thread) + "." + std::to_string(e.opidx) + "=";
    if (e.kind == OP_GET) id += e.ok ? tw::hex(e.val.substr(0, 2)) : "-";
    else if (e.kind == OP_INSERT || e.kind == OP_REMOVE) id += e.ok ? "1" : "0";
    else
      for (const auto& v : e.visits) id += tw::hex(std::string(reinterpret_cast<const char*>(&v.key), 2)) + tw::hex(v.val.substr(0, 2)) + ".";
    id += ";";
  }
  for (const auto& kv : final_content) id += tw::hex(kv.second.substr(0, 2));
  if (overlap) id += "|overlap";
  if (H.outcomes.insert(id).second) {
    if (overlap) ++H.overlapping_outcomes;
    if (H.sample_logs.size() < 3 && overlap) H.sample_logs.push_back(vsched::choices_to_string(g_sched.trace) + " => " + oc);
  }
}

// single-threaded sweep under the scheduler: a lock left behind becomes a
// lone spinner, i.e. a deadlock verdict
void sweep(const Content& expect_after) {
  std::vector<vsched::PointRec> saved_trace = g_sched.trace;
  const auto saved_points = g_sched.npoints;
  const auto saved_pre = g_sched.preemptions;
  static std::vector<std::uint8_t> saved_choices;
  saved_choices.clear();
  for (const auto& r : saved_trace) saved_choices.push_back(r.chosen);
  g_sched.begin_execution(1, nullptr, nullptr);
  vsched::g_progress->executions--;  // not an execution of its own
  g_sched.trace = saved_trace;       // so that a fatal verdict reports the schedule
  vsched::tl_worker = &g_sched.workers[0];
  g_sched.workers[0].started = true;
  g_sched.max_points = 200000;
  std::set<std::uint64_t> keys;
  for (const auto k : H.sc.init) keys.insert(k);
  for (const auto& th : H.sc.threads)
    for (const auto& op : th)
      if (op.kind == OP_GET || op.kind == OP_INSERT || op.kind == OP_REMOVE) keys.insert(op.k1);
  bool bad = false;
  for (const auto k : keys) {
    auto r = H.db->get(k);
    auto it = expect_after.find(k);
    if (r.has_value() != (it != expect_after.end())) bad = true;
    else if (r.has_value()) {
      vsched::PassThru pt;
      const auto sp = *r;
      if (std::string(reinterpret_cast<const char*>(sp.begin().get()), sp.size()) != it->second) bad = true;
    }
  }
  for (int dir = 0; dir < 2; ++dir) {
    std::vector<std::uint64_t> seen;
    H.db->scan([&](const unodb::visitor<Db::iterator>& v) {
      vsched::PassThru pt;
      seen.push_back(key_from_view(v.get_key()));
      return false;
    }, dir == 0);
    std::vector<std::uint64_t> want;
    for (const auto& kv : expect_after) want.push_back(kv.first);
    if (dir == 1) std::reverse(want.begin(), want.end());
    if (seen != want) bad = true;
  }
  const std::array<std::byte, 1> pv{std::byte{0x5A}};
  for (const auto k : keys) {
    for (std::uint64_t probe : {std::uint64_t{k + 1}, std::uint64_t{k - 1}, std::uint64_t{k ^ 0x0100ULL}}) {
      if (keys.count(probe)) continue;
      if (!H.db->insert(probe, unodb::value_view{pv.data(), pv.size()})) bad = true;
      if (!H.db->remove(probe)) bad = true;
    }
  }
  vsched::tl_worker = nullptr;
  g_sched.trace = saved_trace;
  g_sched.npoints = saved_points + g_sched.npoints;
  g_sched.preemptions = saved_pre;
  g_sched.max_points = 50000;
  if (bad) H.violation("C14", "C14/sweep-wrong", "post-execution single-threaded sweep returned wrong results: " + describe_events());
}

// ---------------------------------------------------------------------------
void check_qsbr_idle() {
  auto& q = unodb::qsbr::instance();
  auto& me = unodb::this_thread();
  const auto st = q.state.load();
  const bool count_ok = unodb::qsbr_state::get_thread_count(st) == 1;
  const bool lists_ok = q.orphaned_previous_interval_dealloc_requests.load() == nullptr &&
                        q.orphaned_current_interval_dealloc_requests.load() == nullptr &&
                        me.previous_interval_dealloc_requests.empty() && me.current_interval_dealloc_requests.empty();
  if (count_ok && lists_ok) return;
  if (!count_ok)
    H.violation("C06", "C06/thread-count-final", "registered-thread count after all worker threads left is not 1");
  if (!lists_ok)
    H.violation("C06", "C06/lost-request", "deferred deallocation requests are still pending or orphaned after every worker thread left and the last thread quiesced twice");
  me.previous_interval_dealloc_requests.clear();
  me.current_interval_dealloc_requests.clear();
  q.orphaned_previous_interval_dealloc_requests.store(nullptr);
  q.orphaned_current_interval_dealloc_requests.store(nullptr);
  q.state.store((std::uint64_t{1} << 32U) | 1U);
}

bool run_one(const std::vector<std::uint8_t>& prefix, const std::vector<vsched::PointRec>& expected) {
  reset_qsbr();
  H.blocks.clear();
  H.live_bytes = 0;
  H.events.clear();
  H.events.reserve(64);
  H.frees_in_concurrent_phase = 0;
  const int n = static_cast<int>(H.sc.threads.size());
  H.cur_event.assign(static_cast<std::size_t>(n), -1);
  H.held.assign(static_cast<std::size_t>(n), {});
  H.barriers_arrived.assign(static_cast<std::size_t>(n), 0);
  H.barriers_total.assign(static_cast<std::size_t>(n), 0);
  H.thread_done.assign(static_cast<std::size_t>(n), 0);
  for (int i = 0; i < n; ++i)
    for (const auto& op : H.sc.threads[static_cast<std::size_t>(i)])
      if (op.kind == OP_BARRIER) ++H.barriers_total[static_cast<std::size_t>(i)];
  g_sched.max_points = 50000;
  auto db = std::make_unique<Db>();
  H.db = db.get();
  Content init;
  {
    unsigned idx = 0;
    for (const auto k : H.sc.init) {
      const auto v = make_value(0xEE, idx++, k);
      if (!db->insert(k, unodb::value_view{v.data(), v.size()})) {
        std::fprintf(stderr, "duplicate init key\n");
        std::_Exit(vsched::EXIT_USAGE);
      }
      init[k] = val_str(v);
    }
  }
  g_sched.begin_execution(n, &prefix, &expected);
  // what unodb::qsbr_thread does: the parent registers the new thread
  for (int i = 0; i < n; ++i) g_qsbr_instances[static_cast<std::size_t>(i)] = std::make_unique<unodb::qsbr_per_thread>();
  g_pool.dispatch(n);
  unodb::this_thread().qsbr_pause();
  H.concurrent_phase = true;
  g_sched.run();
  g_pool.wait_idle(n);
  H.concurrent_phase = false;
  H.total_frees_in_concurrent_phase += H.frees_in_concurrent_phase;
  unodb::this_thread().qsbr_resume();
  unodb::this_thread().quiescent();
  unodb::this_thread().quiescent();
  check_qsbr_idle();
  post_execution_checks(init);
  {
    const tw::Tree t = tw::walk(*H.db);
    Content fc;
    for (const auto& nn : t.nodes)
      if (nn.type == 0) {
        std::uint64_t k = 0;
        for (unsigned char c : nn.key) k = (k << 8) | c;
        fc[k] = nn.val;
      }
    bool locked = (tw::root_lock_word(*H.db) & 3U) != 0;
    for (const auto& nn : t.nodes)
      if ((nn.lockword & 3U) != 0) locked = true;
    // the sweep is a function of the physical state: run it once per state
    static std::set<std::string> swept;
    if (!locked && swept.insert(tw::phys_dump(t)).second) sweep(fc);
  }
  H.db = nullptr;
  db.reset();
  for (const auto& b : H.blocks)
    if (b.second.live) {
      H.violation("C10", "C10/not-returned", "memory still held after the index was destroyed");
      // the same fact under C04's last clause: a node that the teardown unlinked was never freed
      H.violation("C04", "C04/never-freed", "a tree block was never freed: it is still allocated after the drain and the destruction of the index");
      break;
    }
  return H.violations_total < 200;
}

}  // namespace

int main(int argc, char** argv) {
  std::string out_path, progress_path, replay;
  unsigned bound = 2, shard = 0, nshards = 1;
  std::uint64_t max_exec = ~std::uint64_t{0};
  bool have_replay = false;
  for (int i = 1; i < argc; ++i) {
    const std::string a = argv[i];
    auto next = [&]() -> std::string {
      if (i + 1 >= argc) std::exit(vsched::EXIT_USAGE);
      return argv[++i];
    };
    if (a == "--id") H.sc.id = next();
    else if (a == "--init") {
      const auto s = next();
      if (!s.empty())
        for (const auto& f : split(s, ',')) H.sc.init.push_back(parse_hex(f));
    } else if (a == "--thread") {
      std::vector<Op> prog;
      for (const auto& f : split(next(), ';'))
        if (!f.empty()) prog.push_back(parse_op(f));
      H.sc.threads.push_back(prog);
    } else if (a == "--bound") bound = static_cast<unsigned>(std::stoul(next()));
    else if (a == "--shard") {
      const auto f = split(next(), '/');
      shard = static_cast<unsigned>(std::stoul(f.at(0)));
      nshards = static_cast<unsigned>(std::stoul(f.at(1)));
    } else if (a == "--max-exec") max_exec = std::stoull(next());
    else if (a == "--delay-bounded") g_sched.free_alt_cost = 1;
    else if (a == "--out") out_path = next();
    else if (a == "--progress") progress_path = next();
    else if (a == "--replay") {
      replay = next();
      have_replay = true;
    } else {
      std::fprintf(stderr, "unknown arg %s\n", a.c_str());
      return vsched::EXIT_USAGE;
    }
  }
  if (H.sc.threads.empty() || H.sc.threads.size() > 4) return vsched::EXIT_USAGE;
  vsched::progress_open(progress_path.empty() ? nullptr : progress_path.c_str());
  std::snprintf(vsched::g_progress->scenario, sizeof(vsched::g_progress->scenario), "%s", H.sc.id.c_str());
  g_node_sizes[0] = sizeof(Db::leaf_type) - 1;  // overhead; key+value added per leaf
  g_node_sizes[1] = sizeof(unodb::detail::olc_inode_4<std::uint64_t, unodb::value_view>);
  g_node_sizes[2] = sizeof(unodb::detail::olc_inode_16<std::uint64_t, unodb::value_view>);
  g_node_sizes[3] = sizeof(unodb::detail::olc_inode_48<std::uint64_t, unodb::value_view>);
  g_node_sizes[4] = sizeof(unodb::detail::olc_inode_256<std::uint64_t, unodb::value_view>);
  g_sched.cb = &H;
  g_sched.on_invoke = stamp_invoke;
  g_pool.body = worker_main;

  vsched::ExploreStats st;
  if (have_replay) {
    const auto pfx = vsched::choices_from_string(replay);
    const std::vector<vsched::PointRec> none;
    run_one(pfx, none);
    st.executions = 1;
    st.points = g_sched.npoints;
    st.tree_nodes = g_sched.trace.size();
    std::fprintf(stderr, "replay: %s\n", describe_events().c_str());
  } else {
    st = vsched::explore(bound, shard, nshards, max_exec, run_one);
  }

  jsonw::Obj o;
  o.str("scenario", H.sc.id);
  o.num("bound", bound);
  o.num("shard", shard);
  o.num("nshards", nshards);
  o.boolean("complete", st.complete);
  o.num("executions", st.executions);
  o.num("points", st.points);
  o.num("tree_nodes", st.tree_nodes);
  o.num("max_trace", st.max_trace);
  {
    std::string s = "[";
    for (int i = 0; i < 16; ++i) s += (i ? "," : "") + std::to_string(st.by_preemptions[i]);
    o.raw("by_preemptions", s + "]");
  }
  o.num("distinct_outcomes", H.outcomes.size());
  o.num("overlapping_outcomes", H.overlapping_outcomes);
  o.num("frees_in_concurrent_phase", H.total_frees_in_concurrent_phase);
  o.num("violations_total", H.violations_total);
  {
    std::string s = "[";
    bool first = true;
    for (const auto& v : H.violations) {
      jsonw::Obj vo;
      vo.str("property", v.property);
      vo.str("signature", v.signature);
      vo.str("what", v.what);
      vo.str("choices", v.choices);
      vo.num("preemptions", v.preemptions);
      s += (first ? "" : ",") + vo.done();
      first = false;
    }
    o.raw("violations", s + "]");
  }
  {
    std::string s = "[";
    bool first = true;
    for (const auto& l : H.sample_logs) {
      s += (first ? "" : ",") + jsonw::quote(l);
      first = false;
    }
    o.raw("samples", s + "]");
  }
  const std::string js = o.done();
  if (out_path.empty()) {
    std::puts(js.c_str());
    std::fflush(stdout);
  } else {
    FILE* f = std::fopen(out_path.c_str(), "w");
    if (!f) return vsched::EXIT_USAGE;
    std::fputs(js.c_str(), f);
    std::fclose(f);
  }
  std::_Exit(0);  // skip static destructors (QSBR asserts idle, threads are gone)
}
