// C17 runner: explicit-state breadth-first search over the real
// unodb::qsbr_ptr / unodb::qsbr_ptr_span classes, compared after every
// transition with a shadow model of raw pointers, plus (assertion builds) the
// per-thread active pointer registry and forked quiescent/pause/resume probes.
//
// Build (twice: as is = assertions on, and with -DNDEBUG):
//   g++ -std=c++20 -O1 -g -mavx2 -DUNODB_DETAIL_WITH_STATS
//       -DUNODB_SPINLOCK_LOOP_VALUE=1 -fno-access-control -I/repo wrap.cpp
//       /repo/qsbr.cpp /repo/qsbr_ptr.cpp -pthread [-DNDEBUG]
//
// See README.md in this directory and /verif/engines/RUNNER_PROTOCOL.md.

// Should be the first include
#include "global.hpp"

#include <fcntl.h>
#include <signal.h>
#include <sys/mman.h>
#include <sys/resource.h>
#include <sys/wait.h>
#include <unistd.h>

#include <algorithm>
#include <cerrno>
#include <cstddef>
#include <cstdint>
#include <cstdio>
#include <cstdlib>
#include <cstring>
#include <iterator>
#include <map>
#include <memory>
#include <new>
#include <ranges>
#include <span>
#include <string>
#include <thread>
#include <type_traits>
#include <utility>
#include <vector>

#include "qsbr.hpp"
#include "qsbr_ptr.hpp"

namespace {

// ---------------------------------------------------------------------------
// Universe
// ---------------------------------------------------------------------------

struct Elem {
  int v;
  friend bool operator==(const Elem&, const Elem&) = default;
};

using Ptr = unodb::qsbr_ptr<Elem>;
using Span = unodb::qsbr_ptr_span<Elem>;
using diff_t = std::ptrdiff_t;

constexpr int LMAX = 4;
constexpr int PMAX = 3;
constexpr int SMAX = 2;

// Two buffers with a gap between them, so that one-past-the-end of the first
// is never the start of the second.
struct Arena {
  Elem b0[LMAX];
  Elem gap[3];
  Elem b1[LMAX];
};
Arena g_arena = {{{10}, {11}, {12}, {13}},
                 {{-1}, {-2}, {-3}},
                 {{20}, {21}, {22}, {23}}};

Elem* bufp(int b) { return b == 0 ? g_arena.b0 : g_arena.b1; }

int gL = 3;  // buffer length: offsets 0..gL (gL = one past the end)
int gP = 2;  // pointer slots
int gS = 2;  // span slots

std::string label(const void* a) {
  if (a == nullptr) return "null";
  const auto* e = static_cast<const Elem*>(a);
  for (int b = 0; b < 2; ++b) {
    const Elem* base = bufp(b);
    if (e >= base && e <= base + LMAX)
      return "b" + std::to_string(b) + "+" + std::to_string(e - base);
  }
  return "other";
}

// ---------------------------------------------------------------------------
// Shadow model
// ---------------------------------------------------------------------------

struct SP {  // pointer slot
  std::uint8_t st = 0;  // 0 storage raw, 1 null, 2 value
  std::uint8_t b = 0, o = 0;
};
struct SS {  // span slot
  std::uint8_t st = 0;  // 0 storage raw, 1 null start (len kept), 2 value
  std::uint8_t b = 0, o = 0, len = 0;
};
struct Shadow {
  SP p[PMAX];
  SS s[SMAX];
};

Elem* rawp(const SP& x) { return x.st == 2 ? bufp(x.b) + x.o : nullptr; }
Elem* rawstart(const SS& x) { return x.st == 2 ? bufp(x.b) + x.o : nullptr; }

int span_idx[2][LMAX + 1][LMAX + 1];
std::vector<SS> span_tab;

int pcodes() { return 2 + 2 * (gL + 1); }
int scodes() { return 2 + gL + static_cast<int>(span_tab.size()); }

void build_span_tab() {
  span_tab.clear();
  for (int b = 0; b < 2; ++b)
    for (int o = 0; o <= gL; ++o)
      for (int len = 0; o + len <= gL; ++len) {
        span_idx[b][o][len] = static_cast<int>(span_tab.size());
        SS x;
        x.st = 2;
        x.b = static_cast<std::uint8_t>(b);
        x.o = static_cast<std::uint8_t>(o);
        x.len = static_cast<std::uint8_t>(len);
        span_tab.push_back(x);
      }
}

int pcode(const SP& x) {
  if (x.st < 2) return x.st;
  return 2 + x.b * (gL + 1) + x.o;
}
SP pdecode(int c) {
  SP x;
  if (c < 2) {
    x.st = static_cast<std::uint8_t>(c);
    return x;
  }
  c -= 2;
  x.st = 2;
  x.b = static_cast<std::uint8_t>(c / (gL + 1));
  x.o = static_cast<std::uint8_t>(c % (gL + 1));
  return x;
}
int scode(const SS& x) {
  if (x.st == 0) return 0;
  if (x.st == 1) return 1 + x.len;
  return gL + 2 + span_idx[x.b][x.o][x.len];
}
SS sdecode(int c) {
  SS x;
  if (c == 0) return x;
  if (c <= gL + 1) {
    x.st = 1;
    x.len = static_cast<std::uint8_t>(c - 1);
    return x;
  }
  return span_tab[static_cast<std::size_t>(c - gL - 2)];
}

std::uint32_t total_codes() {
  std::uint64_t t = 1;
  for (int i = 0; i < gP; ++i) t *= static_cast<unsigned>(pcodes());
  for (int i = 0; i < gS; ++i) t *= static_cast<unsigned>(scodes());
  return static_cast<std::uint32_t>(t);
}
std::uint32_t encode(const Shadow& sh) {
  std::uint32_t c = 0;
  for (int i = 0; i < gP; ++i)
    c = c * static_cast<unsigned>(pcodes()) +
        static_cast<unsigned>(pcode(sh.p[i]));
  for (int i = 0; i < gS; ++i)
    c = c * static_cast<unsigned>(scodes()) +
        static_cast<unsigned>(scode(sh.s[i]));
  return c;
}
Shadow decode(std::uint32_t c) {
  Shadow sh;
  for (int i = gS - 1; i >= 0; --i) {
    sh.s[i] = sdecode(static_cast<int>(c % static_cast<unsigned>(scodes())));
    c /= static_cast<unsigned>(scodes());
  }
  for (int i = gP - 1; i >= 0; --i) {
    sh.p[i] = pdecode(static_cast<int>(c % static_cast<unsigned>(pcodes())));
    c /= static_cast<unsigned>(pcodes());
  }
  return sh;
}

std::string describe(const Shadow& sh) {
  std::string r;
  for (int i = 0; i < gP; ++i) {
    if (i) r += ' ';
    r += "p" + std::to_string(i) + "=";
    const SP& x = sh.p[i];
    if (x.st == 0)
      r += "-";
    else
      r += label(rawp(x));
  }
  for (int i = 0; i < gS; ++i) {
    r += " s" + std::to_string(i) + "=";
    const SS& x = sh.s[i];
    if (x.st == 0)
      r += "-";
    else
      r += "[" + label(rawstart(x)) + ",len" + std::to_string(x.len) + "]";
  }
  return r;
}

// Number of live non-null wrappers (= expected size of the registry).
int live_nonnull(const Shadow& sh) {
  int n = 0;
  for (int i = 0; i < gP; ++i) n += sh.p[i].st == 2;
  for (int i = 0; i < gS; ++i) n += sh.s[i].st == 2;
  return n;
}

// ---------------------------------------------------------------------------
// Alphabet
// ---------------------------------------------------------------------------

enum Kind : std::uint8_t {
  K_CRAW,
  K_CNULLRAW,
  K_CDEF,
  K_CCOPY,
  K_CMOVE,
  K_ACOPY,
  K_AMOVE,
  K_PREINC,
  K_POSTINC,
  K_PREDEC,
  K_POSTDEC,
  K_ADDEQ,
  K_SUBEQ,
  K_PLUS,
  K_MINUS,
  K_NPLUS,
  K_DESTROY,
  K_CBEGIN,
  K_CEND,
  K_ABEGIN,
  K_AEND,
  K_SRAW,
  K_SEMPTY,
  K_SDEF,
  K_SCCOPY,
  K_SCMOVE,
  K_SACOPY,
  K_SAMOVE,
  K_SDESTROY,
  K_COUNT
};

const char* const kind_name[K_COUNT] = {"construct-raw",
                                        "construct-null",
                                        "default-construct",
                                        "copy-construct",
                                        "move-construct",
                                        "copy-assign",
                                        "move-assign",
                                        "pre-inc",
                                        "post-inc",
                                        "pre-dec",
                                        "post-dec",
                                        "add-assign",
                                        "sub-assign",
                                        "plus",
                                        "minus",
                                        "n-plus",
                                        "destroy",
                                        "construct-from-begin",
                                        "construct-from-end",
                                        "assign-from-begin",
                                        "assign-from-end",
                                        "span-construct",
                                        "span-construct-empty",
                                        "span-default-construct",
                                        "span-copy-construct",
                                        "span-move-construct",
                                        "span-copy-assign",
                                        "span-move-assign",
                                        "span-destroy"};

struct Op {
  Kind k = K_CRAW;
  std::uint8_t i = 0, j = 0, b = 0, o = 0, len = 0, n = 0;
  std::string name;
};

std::vector<Op> g_ops;
std::map<std::string, int> g_op_by_name;

void add_op(Kind k, int i, int j, int b, int o, int len, int n,
            std::string name) {
  Op op;
  op.k = k;
  op.i = static_cast<std::uint8_t>(i);
  op.j = static_cast<std::uint8_t>(j);
  op.b = static_cast<std::uint8_t>(b);
  op.o = static_cast<std::uint8_t>(o);
  op.len = static_cast<std::uint8_t>(len);
  op.n = static_cast<std::uint8_t>(n);
  op.name = std::move(name);
  g_op_by_name[op.name] = static_cast<int>(g_ops.size());
  g_ops.push_back(std::move(op));
}

void build_ops() {
  g_ops.clear();
  g_op_by_name.clear();
  const auto S = [](int x) { return std::to_string(x); };
  for (int i = 0; i < gP; ++i) {
    for (int b = 0; b < 2; ++b)
      for (int o = 0; o <= gL; ++o)
        add_op(K_CRAW, i, 0, b, o, 0, 0, "c" + S(i) + ":b" + S(b) + "o" + S(o));
    add_op(K_CNULLRAW, i, 0, 0, 0, 0, 0, "cn" + S(i));
    add_op(K_CDEF, i, 0, 0, 0, 0, 0, "dc" + S(i));
    for (int j = 0; j < gP; ++j)
      if (j != i) {
        add_op(K_CCOPY, i, j, 0, 0, 0, 0, "cc" + S(i) + "." + S(j));
        add_op(K_CMOVE, i, j, 0, 0, 0, 0, "mc" + S(i) + "." + S(j));
        add_op(K_ACOPY, i, j, 0, 0, 0, 0, "ca" + S(i) + "." + S(j));
        add_op(K_AMOVE, i, j, 0, 0, 0, 0, "ma" + S(i) + "." + S(j));
      }
    add_op(K_PREINC, i, 0, 0, 0, 0, 0, "pri" + S(i));
    add_op(K_POSTINC, i, 0, 0, 0, 0, 0, "poi" + S(i));
    add_op(K_PREDEC, i, 0, 0, 0, 0, 0, "prd" + S(i));
    add_op(K_POSTDEC, i, 0, 0, 0, 0, 0, "pod" + S(i));
    for (int n = 1; n <= 2; ++n) {
      add_op(K_ADDEQ, i, 0, 0, 0, 0, n, "ae" + S(i) + ":" + S(n));
      add_op(K_SUBEQ, i, 0, 0, 0, 0, n, "se" + S(i) + ":" + S(n));
      add_op(K_PLUS, i, 0, 0, 0, 0, n, "pl" + S(i) + ":" + S(n));
      add_op(K_MINUS, i, 0, 0, 0, 0, n, "mi" + S(i) + ":" + S(n));
      add_op(K_NPLUS, i, 0, 0, 0, 0, n, "np" + S(i) + ":" + S(n));
    }
    add_op(K_DESTROY, i, 0, 0, 0, 0, 0, "d" + S(i));
    for (int j = 0; j < gS; ++j) {
      add_op(K_CBEGIN, i, j, 0, 0, 0, 0, "bc" + S(i) + "." + S(j));
      add_op(K_CEND, i, j, 0, 0, 0, 0, "ec" + S(i) + "." + S(j));
      add_op(K_ABEGIN, i, j, 0, 0, 0, 0, "ba" + S(i) + "." + S(j));
      add_op(K_AEND, i, j, 0, 0, 0, 0, "ea" + S(i) + "." + S(j));
    }
  }
  for (int i = 0; i < gS; ++i) {
    for (int b = 0; b < 2; ++b)
      for (int o = 0; o <= gL; ++o)
        for (int len = 0; o + len <= gL; ++len)
          add_op(K_SRAW, i, 0, b, o, len, 0,
                 "S" + S(i) + ":b" + S(b) + "o" + S(o) + "l" + S(len));
    add_op(K_SEMPTY, i, 0, 0, 0, 0, 0, "Se" + S(i));
    add_op(K_SDEF, i, 0, 0, 0, 0, 0, "Sd" + S(i));
    for (int j = 0; j < gS; ++j)
      if (j != i) {
        add_op(K_SCCOPY, i, j, 0, 0, 0, 0, "Scc" + S(i) + "." + S(j));
        add_op(K_SCMOVE, i, j, 0, 0, 0, 0, "Smc" + S(i) + "." + S(j));
        add_op(K_SACOPY, i, j, 0, 0, 0, 0, "Sca" + S(i) + "." + S(j));
        add_op(K_SAMOVE, i, j, 0, 0, 0, 0, "Sma" + S(i) + "." + S(j));
      }
    add_op(K_SDESTROY, i, 0, 0, 0, 0, 0, "Sx" + S(i));
  }
}

// A span whose begin()/end() may be taken without forming nullptr + n.
bool span_iterable(const SS& x) {
  return x.st == 2 || (x.st == 1 && x.len == 0);
}

bool enabled(const Op& op, const Shadow& sh) {
  switch (op.k) {
    case K_CRAW:
    case K_CNULLRAW:
    case K_CDEF:
      return sh.p[op.i].st == 0;
    case K_CCOPY:
    case K_CMOVE:
      return sh.p[op.i].st == 0 && sh.p[op.j].st != 0;
    case K_ACOPY:
    case K_AMOVE:
      return sh.p[op.i].st != 0 && sh.p[op.j].st != 0;
    case K_PREINC:
    case K_POSTINC:
      return sh.p[op.i].st == 2 && sh.p[op.i].o + 1 <= gL;
    case K_PREDEC:
    case K_POSTDEC:
      return sh.p[op.i].st == 2 && sh.p[op.i].o >= 1;
    case K_ADDEQ:
    case K_PLUS:
    case K_NPLUS:
      return sh.p[op.i].st == 2 && sh.p[op.i].o + op.n <= gL;
    case K_SUBEQ:
    case K_MINUS:
      return sh.p[op.i].st == 2 && sh.p[op.i].o >= op.n;
    case K_DESTROY:
      return sh.p[op.i].st != 0;
    case K_CBEGIN:
      return sh.p[op.i].st == 0 && sh.s[op.j].st != 0;
    case K_CEND:
      return sh.p[op.i].st == 0 && span_iterable(sh.s[op.j]);
    case K_ABEGIN:
      return sh.p[op.i].st != 0 && sh.s[op.j].st != 0;
    case K_AEND:
      return sh.p[op.i].st != 0 && span_iterable(sh.s[op.j]);
    case K_SRAW:
    case K_SEMPTY:
    case K_SDEF:
      return sh.s[op.i].st == 0;
    case K_SCCOPY:
    case K_SCMOVE:
      return sh.s[op.i].st == 0 && sh.s[op.j].st != 0;
    case K_SACOPY:
    case K_SAMOVE:
      return sh.s[op.i].st != 0 && sh.s[op.j].st != 0;
    case K_SDESTROY:
      return sh.s[op.i].st != 0;
    case K_COUNT:
      break;
  }
  return false;
}

SP sp_null() {
  SP x;
  x.st = 1;
  return x;
}
SP sp_from_span_begin(const SS& s) {
  SP x;
  if (s.st == 2) {
    x.st = 2;
    x.b = s.b;
    x.o = s.o;
  } else {
    x.st = 1;
  }
  return x;
}
SP sp_from_span_end(const SS& s) {
  SP x = sp_from_span_begin(s);
  if (x.st == 2) x.o = static_cast<std::uint8_t>(x.o + s.len);
  return x;
}

// The model: what a raw pointer (resp. a std::span) would hold, with the
// documented moved-from value (nullptr) for the source of a move.  The length
// kept by a span whose start was moved away is not specified by anything, so
// it is adopted from the implementation after the step (see adopt()).
void apply_model(const Op& op, Shadow& sh) {
  SP& p = sh.p[op.i];
  SS& s = sh.s[op.i];
  switch (op.k) {
    case K_CRAW:
      p.st = 2;
      p.b = op.b;
      p.o = op.o;
      break;
    case K_CNULLRAW:
    case K_CDEF:
      p = sp_null();
      break;
    case K_CCOPY:
    case K_ACOPY:
      p = sh.p[op.j];
      break;
    case K_CMOVE:
    case K_AMOVE:
      p = sh.p[op.j];
      sh.p[op.j] = sp_null();
      break;
    case K_PREINC:
    case K_POSTINC:
      ++p.o;
      break;
    case K_PREDEC:
    case K_POSTDEC:
      --p.o;
      break;
    case K_ADDEQ:
      p.o = static_cast<std::uint8_t>(p.o + op.n);
      break;
    case K_SUBEQ:
      p.o = static_cast<std::uint8_t>(p.o - op.n);
      break;
    case K_PLUS:
    case K_MINUS:
    case K_NPLUS:
      break;
    case K_DESTROY:
      p = SP{};
      break;
    case K_CBEGIN:
    case K_ABEGIN:
      p = sp_from_span_begin(sh.s[op.j]);
      break;
    case K_CEND:
    case K_AEND:
      p = sp_from_span_end(sh.s[op.j]);
      break;
    case K_SRAW:
      s.st = 2;
      s.b = op.b;
      s.o = op.o;
      s.len = op.len;
      break;
    case K_SEMPTY:
    case K_SDEF:
      s = SS{};
      s.st = 1;
      break;
    case K_SCCOPY:
    case K_SACOPY:
      s = sh.s[op.j];
      break;
    case K_SCMOVE:
    case K_SAMOVE:
      s = sh.s[op.j];
      sh.s[op.j].st = 1;
      sh.s[op.j].b = 0;
      sh.s[op.j].o = 0;
      break;
    case K_SDESTROY:
      s = SS{};
      break;
    case K_COUNT:
      break;
  }
}

// ---------------------------------------------------------------------------
// Real objects in raw storage
// ---------------------------------------------------------------------------

alignas(Ptr) unsigned char g_pstore[PMAX][sizeof(Ptr)];
alignas(Span) unsigned char g_sstore[SMAX][sizeof(Span)];

Ptr& P(int i) { return *std::launder(reinterpret_cast<Ptr*>(g_pstore[i])); }
Span& S(int i) { return *std::launder(reinterpret_cast<Span*>(g_sstore[i])); }

void scrub_p(int i) { std::memset(g_pstore[i], 0xA5, sizeof(Ptr)); }
void scrub_s(int i) { std::memset(g_sstore[i], 0xA5, sizeof(Span)); }
void scrub_all() {
  for (int i = 0; i < PMAX; ++i) scrub_p(i);
  for (int i = 0; i < SMAX; ++i) scrub_s(i);
}

// Static checks of the operator result types.
static_assert(std::is_same_v<decltype(++std::declval<Ptr&>()), Ptr&>);
static_assert(std::is_same_v<decltype(--std::declval<Ptr&>()), Ptr&>);
static_assert(std::is_same_v<decltype(std::declval<Ptr&>()++), Ptr>);
static_assert(std::is_same_v<decltype(std::declval<Ptr&>()--), Ptr>);
static_assert(std::is_same_v<decltype(std::declval<Ptr&>() += 1), Ptr&>);
static_assert(std::is_same_v<decltype(std::declval<Ptr&>() -= 1), Ptr&>);
static_assert(std::is_same_v<decltype(std::declval<const Ptr&>() + 1), Ptr>);
static_assert(std::is_same_v<decltype(std::declval<const Ptr&>() - 1), Ptr>);
static_assert(std::is_same_v<decltype(1 + std::declval<const Ptr&>()), Ptr>);
static_assert(std::is_same_v<decltype(std::declval<const Ptr&>() -
                                      std::declval<const Ptr&>()),
                             diff_t>);
static_assert(std::is_same_v<decltype(*std::declval<const Ptr&>()), Elem&>);
static_assert(std::is_same_v<decltype(std::declval<const Ptr&>()[0]), Elem&>);
static_assert(std::is_same_v<decltype(std::declval<const Ptr&>().get()), Elem*>);
static_assert(
    std::is_same_v<decltype(std::declval<const Ptr&>().operator->()), Elem*>);
static_assert(std::is_same_v<decltype(std::declval<const Ptr&>() ==
                                      std::declval<const Ptr&>()),
                             bool>);
static_assert(std::is_same_v<decltype(std::declval<Ptr&>() =
                                          std::declval<const Ptr&>()),
                             Ptr&>);
static_assert(
    std::is_same_v<decltype(std::declval<Ptr&>() = std::declval<Ptr&&>()),
                   Ptr&>);
static_assert(std::is_same_v<decltype(std::declval<Span&>() =
                                          std::declval<const Span&>()),
                             Span&>);
static_assert(std::is_same_v<decltype(std::declval<const Span&>().begin()), Ptr>);
static_assert(std::is_same_v<decltype(std::declval<const Span&>().end()), Ptr>);
static_assert(
    std::is_same_v<decltype(std::declval<const Span&>().size()), std::size_t>);

// ---------------------------------------------------------------------------
// Violations
// ---------------------------------------------------------------------------

struct Viol {
  std::vector<std::uint16_t> hist;
  std::string sig, what, detail;
};

constexpr std::size_t VIOL_CAP = 20;

struct Ctx {
  std::vector<Viol> viols;
  std::uint64_t total = 0;
  std::uint64_t registry_checks = 0;
  // Current case
  std::vector<std::uint16_t> cur;  // history including the current op
  std::string subject;             // first component of the signature
  int step_viols = 0;
  bool value_bad = false;

  void begin_case(const std::uint16_t* h, std::size_t n, int op,
                  const std::string& subj) {
    cur.assign(h, h + n);
    if (op >= 0) cur.push_back(static_cast<std::uint16_t>(op));
    subject = subj;
    step_viols = 0;
    value_bad = false;
  }
  void fail(const char* oracle, bool value, const std::string& what,
            const std::string& detail) {
    ++total;
    ++step_viols;
    if (value) value_bad = true;
    if (viols.size() < VIOL_CAP) {
      Viol v;
      v.hist = cur;
      v.sig = "C17/" + subject + "/" + oracle;
      v.what = what;
      v.detail = detail;
      viols.push_back(std::move(v));
    }
  }
};

// ---------------------------------------------------------------------------
// Registry oracle (assertion-enabled builds)
// ---------------------------------------------------------------------------

#ifndef NDEBUG
std::string join_labels(const std::vector<const void*>& v) {
  std::string r = "{";
  for (std::size_t i = 0; i < v.size(); ++i) {
    if (i) r += ",";
    r += label(v[i]);
  }
  return r + "}";
}
#endif

// Compares the thread's active pointer multiset with the shadow addresses of
// all live non-null wrappers (plus one optional extra live temporary).
void check_registry([[maybe_unused]] const Shadow& sh,
                    [[maybe_unused]] const void* extra,
                    [[maybe_unused]] Ctx& ctx,
                    [[maybe_unused]] const char* oracle) {
#ifndef NDEBUG
  ++ctx.registry_checks;
  std::vector<const void*> want;
  for (int i = 0; i < gP; ++i)
    if (sh.p[i].st == 2) want.push_back(rawp(sh.p[i]));
  for (int i = 0; i < gS; ++i)
    if (sh.s[i].st == 2) want.push_back(rawstart(sh.s[i]));
  if (extra != nullptr) want.push_back(extra);
  const auto& reg = unodb::this_thread().active_ptrs;
  std::vector<const void*> got(reg.begin(), reg.end());
  std::sort(want.begin(), want.end(), std::less<const void*>{});
  std::sort(got.begin(), got.end(), std::less<const void*>{});
  if (want != got)
    ctx.fail(oracle, false,
             "active pointer registry differs from the live non-null wrappers",
             "registry=" + join_labels(got) + " expected=" + join_labels(want) +
                 " state: " + describe(sh));
#endif
}

void clear_registry() {
#ifndef NDEBUG
  unodb::this_thread().active_ptrs.clear();
#endif
}

bool registry_empty() {
#ifndef NDEBUG
  return unodb::this_thread().active_ptrs.empty();
#else
  return true;
#endif
}

// ---------------------------------------------------------------------------
// Applying one operation to the real objects (with result checks)
// ---------------------------------------------------------------------------

void check_self(Ctx& ctx, const void* got, const void* want, const char* opn) {
  if (got != want)
    ctx.fail("return-ref", true,
             std::string(opn) + " does not return a reference to its object",
             "");
}

void check_result(Ctx& ctx, const Shadow& sa, const Ptr& r, Elem* want,
                  const char* opn) {
  if (r.get() != want)
    ctx.fail("return-value", true,
             std::string(opn) + " returned a wrapper holding the wrong address",
             "got=" + label(r.get()) + " expected=" + label(want));
  check_registry(sa, want, ctx, "registry-with-result");
}

// sb: shadow before, sa: shadow after (model already applied).
void apply_real(const Op& op, const Shadow& sb, const Shadow& sa, Ctx& ctx) {
  const int i = op.i, j = op.j;
  const diff_t n = op.n;
  switch (op.k) {
    case K_CRAW:
      ::new (g_pstore[i]) Ptr{bufp(op.b) + op.o};
      break;
    case K_CNULLRAW:
      ::new (g_pstore[i]) Ptr{static_cast<Elem*>(nullptr)};
      break;
    case K_CDEF:
      ::new (g_pstore[i]) Ptr;
      break;
    case K_CCOPY:
      ::new (g_pstore[i]) Ptr{std::as_const(P(j))};
      break;
    case K_CMOVE:
      ::new (g_pstore[i]) Ptr{std::move(P(j))};
      break;
    case K_ACOPY: {
      Ptr& r = (P(i) = std::as_const(P(j)));
      check_self(ctx, &r, &P(i), "copy assignment");
      break;
    }
    case K_AMOVE: {
      Ptr& r = (P(i) = std::move(P(j)));
      check_self(ctx, &r, &P(i), "move assignment");
      break;
    }
    case K_PREINC: {
      Ptr& r = ++P(i);
      check_self(ctx, &r, &P(i), "pre-increment");
      break;
    }
    case K_PREDEC: {
      Ptr& r = --P(i);
      check_self(ctx, &r, &P(i), "pre-decrement");
      break;
    }
    case K_POSTINC: {
      const Ptr r = P(i)++;
      check_result(ctx, sa, r, rawp(sb.p[i]), "post-increment");
      break;
    }
    case K_POSTDEC: {
      const Ptr r = P(i)--;
      check_result(ctx, sa, r, rawp(sb.p[i]), "post-decrement");
      break;
    }
    case K_ADDEQ: {
      Ptr& r = (P(i) += n);
      check_self(ctx, &r, &P(i), "operator+=");
      break;
    }
    case K_SUBEQ: {
      Ptr& r = (P(i) -= n);
      check_self(ctx, &r, &P(i), "operator-=");
      break;
    }
    case K_PLUS: {
      const Ptr r = std::as_const(P(i)) + n;
      check_result(ctx, sa, r, rawp(sb.p[i]) + n, "pointer + n");
      break;
    }
    case K_MINUS: {
      const Ptr r = std::as_const(P(i)) - n;
      check_result(ctx, sa, r, rawp(sb.p[i]) - n, "pointer - n");
      break;
    }
    case K_NPLUS: {
      const Ptr r = n + std::as_const(P(i));
      check_result(ctx, sa, r, rawp(sb.p[i]) + n, "n + pointer");
      break;
    }
    case K_DESTROY:
      P(i).~Ptr();
      scrub_p(i);
      break;
    case K_CBEGIN:
      ::new (g_pstore[i]) Ptr{std::as_const(S(j)).begin()};
      break;
    case K_CEND:
      ::new (g_pstore[i]) Ptr{std::as_const(S(j)).end()};
      break;
    case K_ABEGIN: {
      Ptr& r = (P(i) = std::as_const(S(j)).begin());
      check_self(ctx, &r, &P(i), "move assignment");
      break;
    }
    case K_AEND: {
      Ptr& r = (P(i) = std::as_const(S(j)).end());
      check_self(ctx, &r, &P(i), "move assignment");
      break;
    }
    case K_SRAW: {
      const std::span<Elem> sp{bufp(op.b) + op.o,
                               static_cast<std::size_t>(op.len)};
      ::new (g_sstore[i]) Span{sp};
      break;
    }
    case K_SEMPTY: {
      const std::span<Elem> sp{};
      ::new (g_sstore[i]) Span{sp};
      break;
    }
    case K_SDEF:
      ::new (g_sstore[i]) Span;
      break;
    case K_SCCOPY:
      ::new (g_sstore[i]) Span{std::as_const(S(j))};
      break;
    case K_SCMOVE:
      ::new (g_sstore[i]) Span{std::move(S(j))};
      break;
    case K_SACOPY: {
      Span& r = (S(i) = std::as_const(S(j)));
      check_self(ctx, &r, &S(i), "span copy assignment");
      break;
    }
    case K_SAMOVE: {
      Span& r = (S(i) = std::move(S(j)));
      check_self(ctx, &r, &S(i), "span move assignment");
      break;
    }
    case K_SDESTROY:
      S(i).~Span();
      scrub_s(i);
      break;
    case K_COUNT:
      break;
  }
}

// The length kept by a span whose start pointer is null (default constructed
// with length 0, or moved from) is taken from the implementation.  Returns
// false if it leaves the universe.
bool adopt(Shadow& sh) {
  for (int i = 0; i < gS; ++i)
    if (sh.s[i].st == 1) {
      const std::size_t len = std::as_const(S(i)).size();
      if (len > static_cast<std::size_t>(gL)) return false;
      sh.s[i].len = static_cast<std::uint8_t>(len);
    }
  return true;
}

// Replays a history on scrubbed storage without oracles (every prefix was
// checked when it was first explored).
volatile sig_atomic_t g_cur_step = 0;

void replay_real(const std::uint16_t* h, std::size_t n, Shadow& sh, Ctx& ctx) {
  sh = Shadow{};
  for (std::size_t k = 0; k < n; ++k) {
    g_cur_step = static_cast<sig_atomic_t>(k);
    const Op& op = g_ops[h[k]];
    const Shadow sb = sh;
    apply_model(op, sh);
    apply_real(op, sb, sh, ctx);
    adopt(sh);
  }
  g_cur_step = static_cast<sig_atomic_t>(n);
}

// Destroys every live object in slot order.
void teardown(const Shadow& sh) {
  for (int i = 0; i < gP; ++i)
    if (sh.p[i].st != 0) {
      P(i).~Ptr();
      scrub_p(i);
    }
  for (int i = 0; i < gS; ++i)
    if (sh.s[i].st != 0) {
      S(i).~Span();
      scrub_s(i);
    }
}

// Forgets the objects without running destructors (after a detected failure,
// where destructors could trip over the corrupted registry).
void abandon() {
  scrub_all();
  clear_registry();
}

// ---------------------------------------------------------------------------
// Value oracle: every live real object against the shadow
// ---------------------------------------------------------------------------

std::string sl(const char* kind, int i) { return kind + std::to_string(i); }

void check_ptr_slot(int i, const SP& x, Ctx& ctx) {
  const Ptr& p = std::as_const(P(i));
  Elem* const raw = rawp(x);
  if (p.get() != raw) {
    ctx.fail(x.st == 1 ? "null-value" : "value", true,
             "get() differs from the raw pointer",
             sl("p", i) + ": got=" + label(p.get()) +
                 " expected=" + label(raw));
    return;  // nothing else is meaningful (and could be out of bounds)
  }
  if (p.operator->() != raw || std::to_address(p) != raw)
    ctx.fail("arrow", true, "operator-> differs from the raw pointer",
             sl("p", i));
  if (x.st != 2) return;
  if (x.o < gL) {
    Elem& r = *p;
    if (&r != raw || r.v != raw->v)
      ctx.fail("deref", true, "operator* differs from the raw pointer",
               sl("p", i) + " at " + label(raw));
    if (p->v != raw->v)
      ctx.fail("arrow", true, "p->v differs from the raw pointer", sl("p", i));
  }
  for (diff_t k = -static_cast<diff_t>(x.o); x.o + k < gL; ++k) {
    Elem& r = p[k];
    if (&r != raw + k || r.v != raw[k].v)
      ctx.fail("index", true, "operator[] differs from the raw pointer",
               sl("p", i) + " at " + label(raw) + " k=" + std::to_string(k));
  }
}

void check_ptr_pair(int i, int j, const SP& x, const SP& y, Ctx& ctx) {
  const Ptr& p = std::as_const(P(i));
  const Ptr& q = std::as_const(P(j));
  Elem* const a = rawp(x);
  Elem* const b = rawp(y);
  const std::string where =
      sl("p", i) + "=" + label(a) + " " + sl("p", j) + "=" + label(b);
  if ((p == q) != (a == b))
    ctx.fail("compare", true, "operator== differs from raw pointers", where);
  if ((p != q) != (a != b))
    ctx.fail("compare", true, "operator!= differs from raw pointers", where);
  // Ordering and difference of raw pointers are only defined within one array
  // (or for two null pointers).
  const bool comparable =
      (x.st == 1 && y.st == 1) || (x.st == 2 && y.st == 2 && x.b == y.b);
  if (!comparable) return;
  if ((p < q) != (a < b))
    ctx.fail("compare", true, "operator< differs from raw pointers", where);
  if ((p <= q) != (a <= b))
    ctx.fail("compare", true, "operator<= differs from raw pointers", where);
  if ((p > q) != (a > b))
    ctx.fail("compare", true, "operator> differs from raw pointers", where);
  if ((p >= q) != (a >= b))
    ctx.fail("compare", true, "operator>= differs from raw pointers", where);
  if ((p - q) != (a - b))
    ctx.fail("difference", true, "pointer difference differs from raw pointers",
             where + " got=" + std::to_string(p - q) +
                 " expected=" + std::to_string(a - b));
}

void check_span_slot(int i, const SS& x, Ctx& ctx) {
  const Span& s = std::as_const(S(i));
  Elem* const start = rawstart(x);
  const std::string where = sl("s", i) + "=[" + label(start) + ",len" +
                            std::to_string(x.len) + "]";
  if (s.begin().get() != start) {
    ctx.fail(x.st == 1 ? "null-value" : "span-elements", true,
             "span begin() differs from the start of the std::span",
             where + " got=" + label(s.begin().get()));
    return;
  }
  // A span whose start was moved away carries no element sequence; nothing is
  // demanded of it beyond being assignable and destructible.
  if (!span_iterable(x)) return;
  const std::size_t len = x.len;
  const std::span<Elem> ref{start, len};
  if (s.size() != ref.size() || std::ranges::size(s) != ref.size() ||
      std::ranges::empty(s) != ref.empty())
    ctx.fail("span-size", true, "span size differs from the std::span",
             where + " got=" + std::to_string(s.size()));
  if (s.end().get() != start + len) {
    ctx.fail("span-elements", true,
             "span end() differs from the end of the std::span",
             where + " got=" + label(s.end().get()));
    return;  // do not iterate towards a wrong end
  }
  if (std::ranges::data(s) != ref.data())
    ctx.fail("span-elements", true, "ranges::data differs", where);
  if ((s.end() - s.begin()) != static_cast<diff_t>(len))
    ctx.fail("span-size", true, "end() - begin() differs from the size", where);
  std::size_t idx = 0;
  bool bad = false;
  for (auto it = s.begin(); it != s.end(); ++it, ++idx) {
    if (idx >= len) {
      bad = true;
      break;
    }
    if (&*it != start + idx || (*it).v != start[idx].v) bad = true;
  }
  if (idx != len) bad = true;
  idx = 0;
  for (Elem& e : s) {
    if (idx >= len || &e != start + idx) bad = true;
    ++idx;
  }
  if (idx != len) bad = true;
  idx = len;
  for (auto it = s.end(); it != s.begin();) {
    --it;
    if (idx == 0) {
      bad = true;
      break;
    }
    --idx;
    if (it.get() != start + idx) bad = true;
  }
  if (idx != 0) bad = true;
  for (std::size_t k = 0; k < len; ++k)
    if (&s.begin()[static_cast<diff_t>(k)] != start + k) bad = true;
  if (!std::ranges::equal(s, ref)) bad = true;
  if (bad)
    ctx.fail("span-elements", true,
             "span element sequence differs from the std::span", where);
}

void check_state(const Shadow& sh, Ctx& ctx) {
  for (int i = 0; i < gP; ++i)
    if (sh.p[i].st != 0) check_ptr_slot(i, sh.p[i], ctx);
  if (!ctx.value_bad)
    for (int i = 0; i < gP; ++i)
      for (int j = 0; j < gP; ++j)
        if (sh.p[i].st != 0 && sh.p[j].st != 0)
          check_ptr_pair(i, j, sh.p[i], sh.p[j], ctx);
  for (int i = 0; i < gS; ++i)
    if (sh.s[i].st != 0) check_span_slot(i, sh.s[i], ctx);
  check_registry(sh, nullptr, ctx, "registry");
}

// PART4
