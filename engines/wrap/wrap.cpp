// C17 runner: explicit-state breadth-first search over the real
// unodb::qsbr_ptr / unodb::qsbr_ptr_span classes, compared after every
// transition with a shadow model of raw pointers, plus (assertion builds) the
// per-thread active pointer registry and forked quiescent/pause/resume probes.
//
// Build (twice: as is = assertions on, and with -DNDEBUG):
//   g++ -std=c++20 -O1 -g -mavx2 -DUNODB_DETAIL_WITH_STATS
//       -DUNODB_SPINLOCK_LOOP_VALUE=1 -fno-access-control -I/repo wrap.cpp
//       /repo/qsbr.cpp /repo/qsbr_ptr.cpp -pthread [-DNDEBUG]
//
// See README.md in this directory and /verif/engines/RUNNER_PROTOCOL.md.

// Should be the first include
#include "global.hpp"

#include <fcntl.h>
#include <signal.h>
#include <sys/mman.h>
#include <sys/prctl.h>
#include <sys/resource.h>
#include <sys/wait.h>
#include <unistd.h>

#include <algorithm>
#include <cerrno>
#include <cstddef>
#include <cstdint>
#include <cstdio>
#include <cstdlib>
#include <cstring>
#include <iterator>
#include <map>
#include <memory>
#include <new>
#include <ranges>
#include <span>
#include <string>
#include <thread>
#include <type_traits>
#include <utility>
#include <vector>

#include "qsbr.hpp"
#include "qsbr_ptr.hpp"

namespace {

// ---------------------------------------------------------------------------
// Universe
// ---------------------------------------------------------------------------

struct Elem {
  int v;
  friend bool operator==(const Elem&, const Elem&) = default;
};

using Ptr = unodb::qsbr_ptr<Elem>;
using Span = unodb::qsbr_ptr_span<Elem>;
using diff_t = std::ptrdiff_t;

constexpr int LMAX = 4;
constexpr int PMAX = 3;
constexpr int SMAX = 2;

// Two buffers with a gap between them, so that one-past-the-end of the first
// is never the start of the second.
struct Arena {
  Elem b0[LMAX];
  Elem gap[3];
  Elem b1[LMAX];
};
Arena g_arena = {{{10}, {11}, {12}, {13}},
                 {{-1}, {-2}, {-3}},
                 {{20}, {21}, {22}, {23}}};

Elem* bufp(int b) { return b == 0 ? g_arena.b0 : g_arena.b1; }

int gL = 3;  // buffer length: offsets 0..gL (gL = one past the end)
int gP = 2;  // pointer slots
int gS = 2;  // span slots

std::string label(const void* a) {
  if (a == nullptr) return "null";
  const auto* e = static_cast<const Elem*>(a);
  for (int b = 0; b < 2; ++b) {
    const Elem* base = bufp(b);
    if (e >= base && e <= base + LMAX)
      return "b" + std::to_string(b) + "+" + std::to_string(e - base);
  }
  return "other";
}

// ---------------------------------------------------------------------------
// Shadow model
// ---------------------------------------------------------------------------

struct SP {  // pointer slot
  std::uint8_t st = 0;  // 0 storage raw, 1 null, 2 value
  std::uint8_t b = 0, o = 0;
};
struct SS {  // span slot
  std::uint8_t st = 0;  // 0 storage raw, 1 null start (len kept), 2 value
  std::uint8_t b = 0, o = 0, len = 0;
};
struct Shadow {
  SP p[PMAX];
  SS s[SMAX];
};

Elem* rawp(const SP& x) { return x.st == 2 ? bufp(x.b) + x.o : nullptr; }
Elem* rawstart(const SS& x) { return x.st == 2 ? bufp(x.b) + x.o : nullptr; }

int span_idx[2][LMAX + 1][LMAX + 1];
std::vector<SS> span_tab;

int pcodes() { return 2 + 2 * (gL + 1); }
int scodes() { return 2 + gL + static_cast<int>(span_tab.size()); }

void build_span_tab() {
  span_tab.clear();
  for (int b = 0; b < 2; ++b)
    for (int o = 0; o <= gL; ++o)
      for (int len = 0; o + len <= gL; ++len) {
        span_idx[b][o][len] = static_cast<int>(span_tab.size());
        SS x;
        x.st = 2;
        x.b = static_cast<std::uint8_t>(b);
        x.o = static_cast<std::uint8_t>(o);
        x.len = static_cast<std::uint8_t>(len);
        span_tab.push_back(x);
      }
}

int pcode(const SP& x) {
  if (x.st < 2) return x.st;
  return 2 + x.b * (gL + 1) + x.o;
}
SP pdecode(int c) {
  SP x;
  if (c < 2) {
    x.st = static_cast<std::uint8_t>(c);
    return x;
  }
  c -= 2;
  x.st = 2;
  x.b = static_cast<std::uint8_t>(c / (gL + 1));
  x.o = static_cast<std::uint8_t>(c % (gL + 1));
  return x;
}
int scode(const SS& x) {
  if (x.st == 0) return 0;
  if (x.st == 1) return 1 + x.len;
  return gL + 2 + span_idx[x.b][x.o][x.len];
}
SS sdecode(int c) {
  SS x;
  if (c == 0) return x;
  if (c <= gL + 1) {
    x.st = 1;
    x.len = static_cast<std::uint8_t>(c - 1);
    return x;
  }
  return span_tab[static_cast<std::size_t>(c - gL - 2)];
}

std::uint32_t total_codes() {
  std::uint64_t t = 1;
  for (int i = 0; i < gP; ++i) t *= static_cast<unsigned>(pcodes());
  for (int i = 0; i < gS; ++i) t *= static_cast<unsigned>(scodes());
  return static_cast<std::uint32_t>(t);
}
std::uint32_t encode(const Shadow& sh) {
  std::uint32_t c = 0;
  for (int i = 0; i < gP; ++i)
    c = c * static_cast<unsigned>(pcodes()) +
        static_cast<unsigned>(pcode(sh.p[i]));
  for (int i = 0; i < gS; ++i)
    c = c * static_cast<unsigned>(scodes()) +
        static_cast<unsigned>(scode(sh.s[i]));
  return c;
}
Shadow decode(std::uint32_t c) {
  Shadow sh;
  for (int i = gS - 1; i >= 0; --i) {
    sh.s[i] = sdecode(static_cast<int>(c % static_cast<unsigned>(scodes())));
    c /= static_cast<unsigned>(scodes());
  }
  for (int i = gP - 1; i >= 0; --i) {
    sh.p[i] = pdecode(static_cast<int>(c % static_cast<unsigned>(pcodes())));
    c /= static_cast<unsigned>(pcodes());
  }
  return sh;
}

std::string describe(const Shadow& sh) {
  std::string r;
  for (int i = 0; i < gP; ++i) {
    if (i) r += ' ';
    r += "p" + std::to_string(i) + "=";
    const SP& x = sh.p[i];
    if (x.st == 0)
      r += "-";
    else
      r += label(rawp(x));
  }
  for (int i = 0; i < gS; ++i) {
    r += " s" + std::to_string(i) + "=";
    const SS& x = sh.s[i];
    if (x.st == 0)
      r += "-";
    else
      r += "[" + label(rawstart(x)) + ",len" + std::to_string(x.len) + "]";
  }
  return r;
}

// Number of live non-null wrappers (= expected size of the registry).
int live_nonnull(const Shadow& sh) {
  int n = 0;
  for (int i = 0; i < gP; ++i) n += sh.p[i].st == 2;
  for (int i = 0; i < gS; ++i) n += sh.s[i].st == 2;
  return n;
}

// ---------------------------------------------------------------------------
// Alphabet
// ---------------------------------------------------------------------------

enum Kind : std::uint8_t {
  K_CRAW,
  K_CNULLRAW,
  K_CDEF,
  K_CCOPY,
  K_CMOVE,
  K_ACOPY,
  K_AMOVE,
  K_PREINC,
  K_POSTINC,
  K_PREDEC,
  K_POSTDEC,
  K_ADDEQ,
  K_SUBEQ,
  K_PLUS,
  K_MINUS,
  K_NPLUS,
  K_DESTROY,
  K_CBEGIN,
  K_CEND,
  K_ABEGIN,
  K_AEND,
  K_SRAW,
  K_SEMPTY,
  K_SDEF,
  K_SCCOPY,
  K_SCMOVE,
  K_SACOPY,
  K_SAMOVE,
  K_SDESTROY,
  K_COUNT
};

const char* const kind_name[K_COUNT] = {"construct-raw",
                                        "construct-null",
                                        "default-construct",
                                        "copy-construct",
                                        "move-construct",
                                        "copy-assign",
                                        "move-assign",
                                        "pre-inc",
                                        "post-inc",
                                        "pre-dec",
                                        "post-dec",
                                        "add-assign",
                                        "sub-assign",
                                        "plus",
                                        "minus",
                                        "n-plus",
                                        "destroy",
                                        "construct-from-begin",
                                        "construct-from-end",
                                        "assign-from-begin",
                                        "assign-from-end",
                                        "span-construct",
                                        "span-construct-empty",
                                        "span-default-construct",
                                        "span-copy-construct",
                                        "span-move-construct",
                                        "span-copy-assign",
                                        "span-move-assign",
                                        "span-destroy"};

struct Op {
  Kind k = K_CRAW;
  std::uint8_t i = 0, j = 0, b = 0, o = 0, len = 0, n = 0;
  std::string name;
};

std::vector<Op> g_ops;
std::map<std::string, int> g_op_by_name;

void add_op(Kind k, int i, int j, int b, int o, int len, int n,
            std::string name) {
  Op op;
  op.k = k;
  op.i = static_cast<std::uint8_t>(i);
  op.j = static_cast<std::uint8_t>(j);
  op.b = static_cast<std::uint8_t>(b);
  op.o = static_cast<std::uint8_t>(o);
  op.len = static_cast<std::uint8_t>(len);
  op.n = static_cast<std::uint8_t>(n);
  op.name = std::move(name);
  g_op_by_name[op.name] = static_cast<int>(g_ops.size());
  g_ops.push_back(std::move(op));
}

void build_ops() {
  g_ops.clear();
  g_op_by_name.clear();
  const auto S = [](int x) { return std::to_string(x); };
  for (int i = 0; i < gP; ++i) {
    for (int b = 0; b < 2; ++b)
      for (int o = 0; o <= gL; ++o)
        add_op(K_CRAW, i, 0, b, o, 0, 0, "c" + S(i) + ":b" + S(b) + "o" + S(o));
    add_op(K_CNULLRAW, i, 0, 0, 0, 0, 0, "cn" + S(i));
    add_op(K_CDEF, i, 0, 0, 0, 0, 0, "dc" + S(i));
    for (int j = 0; j < gP; ++j)
      if (j != i) {
        add_op(K_CCOPY, i, j, 0, 0, 0, 0, "cc" + S(i) + "." + S(j));
        add_op(K_CMOVE, i, j, 0, 0, 0, 0, "mc" + S(i) + "." + S(j));
        add_op(K_ACOPY, i, j, 0, 0, 0, 0, "ca" + S(i) + "." + S(j));
        add_op(K_AMOVE, i, j, 0, 0, 0, 0, "ma" + S(i) + "." + S(j));
      }
    add_op(K_PREINC, i, 0, 0, 0, 0, 0, "pri" + S(i));
    add_op(K_POSTINC, i, 0, 0, 0, 0, 0, "poi" + S(i));
    add_op(K_PREDEC, i, 0, 0, 0, 0, 0, "prd" + S(i));
    add_op(K_POSTDEC, i, 0, 0, 0, 0, 0, "pod" + S(i));
    for (int n = 1; n <= 2; ++n) {
      add_op(K_ADDEQ, i, 0, 0, 0, 0, n, "ae" + S(i) + ":" + S(n));
      add_op(K_SUBEQ, i, 0, 0, 0, 0, n, "se" + S(i) + ":" + S(n));
      add_op(K_PLUS, i, 0, 0, 0, 0, n, "pl" + S(i) + ":" + S(n));
      add_op(K_MINUS, i, 0, 0, 0, 0, n, "mi" + S(i) + ":" + S(n));
      add_op(K_NPLUS, i, 0, 0, 0, 0, n, "np" + S(i) + ":" + S(n));
    }
    add_op(K_DESTROY, i, 0, 0, 0, 0, 0, "d" + S(i));
    for (int j = 0; j < gS; ++j) {
      add_op(K_CBEGIN, i, j, 0, 0, 0, 0, "bc" + S(i) + "." + S(j));
      add_op(K_CEND, i, j, 0, 0, 0, 0, "ec" + S(i) + "." + S(j));
      add_op(K_ABEGIN, i, j, 0, 0, 0, 0, "ba" + S(i) + "." + S(j));
      add_op(K_AEND, i, j, 0, 0, 0, 0, "ea" + S(i) + "." + S(j));
    }
  }
  for (int i = 0; i < gS; ++i) {
    for (int b = 0; b < 2; ++b)
      for (int o = 0; o <= gL; ++o)
        for (int len = 0; o + len <= gL; ++len)
          add_op(K_SRAW, i, 0, b, o, len, 0,
                 "S" + S(i) + ":b" + S(b) + "o" + S(o) + "l" + S(len));
    add_op(K_SEMPTY, i, 0, 0, 0, 0, 0, "Se" + S(i));
    add_op(K_SDEF, i, 0, 0, 0, 0, 0, "Sd" + S(i));
    for (int j = 0; j < gS; ++j)
      if (j != i) {
        add_op(K_SCCOPY, i, j, 0, 0, 0, 0, "Scc" + S(i) + "." + S(j));
        add_op(K_SCMOVE, i, j, 0, 0, 0, 0, "Smc" + S(i) + "." + S(j));
        add_op(K_SACOPY, i, j, 0, 0, 0, 0, "Sca" + S(i) + "." + S(j));
        add_op(K_SAMOVE, i, j, 0, 0, 0, 0, "Sma" + S(i) + "." + S(j));
      }
    add_op(K_SDESTROY, i, 0, 0, 0, 0, 0, "Sx" + S(i));
  }
}

// A span whose begin()/end() may be taken without forming nullptr + n.
bool span_iterable(const SS& x) {
  return x.st == 2 || (x.st == 1 && x.len == 0);
}

bool enabled(const Op& op, const Shadow& sh) {
  switch (op.k) {
    case K_CRAW:
    case K_CNULLRAW:
    case K_CDEF:
      return sh.p[op.i].st == 0;
    case K_CCOPY:
    case K_CMOVE:
      return sh.p[op.i].st == 0 && sh.p[op.j].st != 0;
    case K_ACOPY:
    case K_AMOVE:
      return sh.p[op.i].st != 0 && sh.p[op.j].st != 0;
    case K_PREINC:
    case K_POSTINC:
      return sh.p[op.i].st == 2 && sh.p[op.i].o + 1 <= gL;
    case K_PREDEC:
    case K_POSTDEC:
      return sh.p[op.i].st == 2 && sh.p[op.i].o >= 1;
    case K_ADDEQ:
    case K_PLUS:
    case K_NPLUS:
      return sh.p[op.i].st == 2 && sh.p[op.i].o + op.n <= gL;
    case K_SUBEQ:
    case K_MINUS:
      return sh.p[op.i].st == 2 && sh.p[op.i].o >= op.n;
    case K_DESTROY:
      return sh.p[op.i].st != 0;
    case K_CBEGIN:
      return sh.p[op.i].st == 0 && sh.s[op.j].st != 0;
    case K_CEND:
      return sh.p[op.i].st == 0 && span_iterable(sh.s[op.j]);
    case K_ABEGIN:
      return sh.p[op.i].st != 0 && sh.s[op.j].st != 0;
    case K_AEND:
      return sh.p[op.i].st != 0 && span_iterable(sh.s[op.j]);
    case K_SRAW:
    case K_SEMPTY:
    case K_SDEF:
      return sh.s[op.i].st == 0;
    case K_SCCOPY:
    case K_SCMOVE:
      return sh.s[op.i].st == 0 && sh.s[op.j].st != 0;
    case K_SACOPY:
    case K_SAMOVE:
      return sh.s[op.i].st != 0 && sh.s[op.j].st != 0;
    case K_SDESTROY:
      return sh.s[op.i].st != 0;
    case K_COUNT:
      break;
  }
  return false;
}

SP sp_null() {
  SP x;
  x.st = 1;
  return x;
}
SP sp_from_span_begin(const SS& s) {
  SP x;
  if (s.st == 2) {
    x.st = 2;
    x.b = s.b;
    x.o = s.o;
  } else {
    x.st = 1;
  }
  return x;
}
SP sp_from_span_end(const SS& s) {
  SP x = sp_from_span_begin(s);
  if (x.st == 2) x.o = static_cast<std::uint8_t>(x.o + s.len);
  return x;
}

// The model: what a raw pointer (resp. a std::span) would hold, with the
// documented moved-from value (nullptr) for the source of a move.  The length
// kept by a span whose start was moved away is not specified by anything, so
// it is adopted from the implementation after the step (see adopt()).
void apply_model(const Op& op, Shadow& sh) {
  SP& p = sh.p[op.i];
  SS& s = sh.s[op.i];
  switch (op.k) {
    case K_CRAW:
      p.st = 2;
      p.b = op.b;
      p.o = op.o;
      break;
    case K_CNULLRAW:
    case K_CDEF:
      p = sp_null();
      break;
    case K_CCOPY:
    case K_ACOPY:
      p = sh.p[op.j];
      break;
    case K_CMOVE:
    case K_AMOVE:
      p = sh.p[op.j];
      sh.p[op.j] = sp_null();
      break;
    case K_PREINC:
    case K_POSTINC:
      ++p.o;
      break;
    case K_PREDEC:
    case K_POSTDEC:
      --p.o;
      break;
    case K_ADDEQ:
      p.o = static_cast<std::uint8_t>(p.o + op.n);
      break;
    case K_SUBEQ:
      p.o = static_cast<std::uint8_t>(p.o - op.n);
      break;
    case K_PLUS:
    case K_MINUS:
    case K_NPLUS:
      break;
    case K_DESTROY:
      p = SP{};
      break;
    case K_CBEGIN:
    case K_ABEGIN:
      p = sp_from_span_begin(sh.s[op.j]);
      break;
    case K_CEND:
    case K_AEND:
      p = sp_from_span_end(sh.s[op.j]);
      break;
    case K_SRAW:
      s.st = 2;
      s.b = op.b;
      s.o = op.o;
      s.len = op.len;
      break;
    case K_SEMPTY:
    case K_SDEF:
      s = SS{};
      s.st = 1;
      break;
    case K_SCCOPY:
    case K_SACOPY:
      s = sh.s[op.j];
      break;
    case K_SCMOVE:
    case K_SAMOVE:
      s = sh.s[op.j];
      sh.s[op.j].st = 1;
      sh.s[op.j].b = 0;
      sh.s[op.j].o = 0;
      break;
    case K_SDESTROY:
      s = SS{};
      break;
    case K_COUNT:
      break;
  }
}

// ---------------------------------------------------------------------------
// Real objects in raw storage
// ---------------------------------------------------------------------------

alignas(Ptr) unsigned char g_pstore[PMAX][sizeof(Ptr)];
alignas(Span) unsigned char g_sstore[SMAX][sizeof(Span)];

Ptr& P(int i) { return *std::launder(reinterpret_cast<Ptr*>(g_pstore[i])); }
Span& S(int i) { return *std::launder(reinterpret_cast<Span*>(g_sstore[i])); }

void scrub_p(int i) { std::memset(g_pstore[i], 0xA5, sizeof(Ptr)); }
void scrub_s(int i) { std::memset(g_sstore[i], 0xA5, sizeof(Span)); }
void scrub_all() {
  for (int i = 0; i < PMAX; ++i) scrub_p(i);
  for (int i = 0; i < SMAX; ++i) scrub_s(i);
}

// Static checks of the operator result types.
static_assert(std::is_same_v<decltype(++std::declval<Ptr&>()), Ptr&>);
static_assert(std::is_same_v<decltype(--std::declval<Ptr&>()), Ptr&>);
static_assert(std::is_same_v<decltype(std::declval<Ptr&>()++), Ptr>);
static_assert(std::is_same_v<decltype(std::declval<Ptr&>()--), Ptr>);
static_assert(std::is_same_v<decltype(std::declval<Ptr&>() += 1), Ptr&>);
static_assert(std::is_same_v<decltype(std::declval<Ptr&>() -= 1), Ptr&>);
static_assert(std::is_same_v<decltype(std::declval<const Ptr&>() + 1), Ptr>);
static_assert(std::is_same_v<decltype(std::declval<const Ptr&>() - 1), Ptr>);
static_assert(std::is_same_v<decltype(1 + std::declval<const Ptr&>()), Ptr>);
static_assert(std::is_same_v<decltype(std::declval<const Ptr&>() -
                                      std::declval<const Ptr&>()),
                             diff_t>);
static_assert(std::is_same_v<decltype(*std::declval<const Ptr&>()), Elem&>);
static_assert(std::is_same_v<decltype(std::declval<const Ptr&>()[0]), Elem&>);
static_assert(std::is_same_v<decltype(std::declval<const Ptr&>().get()), Elem*>);
static_assert(
    std::is_same_v<decltype(std::declval<const Ptr&>().operator->()), Elem*>);
static_assert(std::is_same_v<decltype(std::declval<const Ptr&>() ==
                                      std::declval<const Ptr&>()),
                             bool>);
static_assert(std::is_same_v<decltype(std::declval<Ptr&>() =
                                          std::declval<const Ptr&>()),
                             Ptr&>);
static_assert(
    std::is_same_v<decltype(std::declval<Ptr&>() = std::declval<Ptr&&>()),
                   Ptr&>);
static_assert(std::is_same_v<decltype(std::declval<Span&>() =
                                          std::declval<const Span&>()),
                             Span&>);
static_assert(std::is_same_v<decltype(std::declval<const Span&>().begin()), Ptr>);
static_assert(std::is_same_v<decltype(std::declval<const Span&>().end()), Ptr>);
static_assert(
    std::is_same_v<decltype(std::declval<const Span&>().size()), std::size_t>);

// ---------------------------------------------------------------------------
// Violations
// ---------------------------------------------------------------------------

struct Viol {
  std::vector<std::uint16_t> hist;
  std::string sig, what, detail;
};

constexpr std::size_t VIOL_CAP = 20;

struct Ctx {
  std::vector<Viol> viols;
  std::uint64_t total = 0;
  std::uint64_t registry_checks = 0;
  // Current case
  std::vector<std::uint16_t> cur;  // history including the current op
  std::string subject;             // first component of the signature
  int step_viols = 0;
  bool value_bad = false;

  void begin_case(const std::uint16_t* h, std::size_t n, int op,
                  const std::string& subj) {
    cur.assign(h, h + n);
    if (op >= 0) cur.push_back(static_cast<std::uint16_t>(op));
    subject = subj;
    step_viols = 0;
    value_bad = false;
  }
  void fail(const char* oracle, bool value, const std::string& what,
            const std::string& detail) {
    ++total;
    ++step_viols;
    if (value) value_bad = true;
    if (viols.size() < VIOL_CAP) {
      Viol v;
      v.hist = cur;
      v.sig = "C17/" + subject + "/" + oracle;
      v.what = what;
      v.detail = detail;
      viols.push_back(std::move(v));
    }
  }
};

// ---------------------------------------------------------------------------
// Registry oracle (assertion-enabled builds)
// ---------------------------------------------------------------------------

#ifndef NDEBUG
std::string join_labels(const std::vector<const void*>& v) {
  std::string r = "{";
  for (std::size_t i = 0; i < v.size(); ++i) {
    if (i) r += ",";
    r += label(v[i]);
  }
  return r + "}";
}
#endif

// Compares the thread's active pointer multiset with the shadow addresses of
// all live non-null wrappers (plus one optional extra live temporary).
void check_registry([[maybe_unused]] const Shadow& sh,
                    [[maybe_unused]] const void* extra,
                    [[maybe_unused]] Ctx& ctx,
                    [[maybe_unused]] const char* oracle) {
#ifndef NDEBUG
  ++ctx.registry_checks;
  std::vector<const void*> want;
  for (int i = 0; i < gP; ++i)
    if (sh.p[i].st == 2) want.push_back(rawp(sh.p[i]));
  for (int i = 0; i < gS; ++i)
    if (sh.s[i].st == 2) want.push_back(rawstart(sh.s[i]));
  if (extra != nullptr) want.push_back(extra);
  const auto& reg = unodb::this_thread().active_ptrs;
  std::vector<const void*> got(reg.begin(), reg.end());
  std::sort(want.begin(), want.end(), std::less<const void*>{});
  std::sort(got.begin(), got.end(), std::less<const void*>{});
  if (want != got)
    ctx.fail(oracle, false,
             "active pointer registry differs from the live non-null wrappers",
             "registry=" + join_labels(got) + " expected=" + join_labels(want) +
                 " state: " + describe(sh));
#endif
}

void clear_registry() {
#ifndef NDEBUG
  unodb::this_thread().active_ptrs.clear();
#endif
}

bool registry_empty() {
#ifndef NDEBUG
  return unodb::this_thread().active_ptrs.empty();
#else
  return true;
#endif
}

// ---------------------------------------------------------------------------
// Applying one operation to the real objects (with result checks)
// ---------------------------------------------------------------------------

void check_self(Ctx& ctx, const void* got, const void* want, const char* opn) {
  if (got != want)
    ctx.fail("return-ref", true,
             std::string(opn) + " does not return a reference to its object",
             "");
}

void check_result(Ctx& ctx, const Shadow& sa, const Ptr& r, Elem* want,
                  const char* opn) {
  if (r.get() != want)
    ctx.fail("return-value", true,
             std::string(opn) + " returned a wrapper holding the wrong address",
             "got=" + label(r.get()) + " expected=" + label(want));
  check_registry(sa, want, ctx, "registry-with-result");
}

// sb: shadow before, sa: shadow after (model already applied).
void apply_real(const Op& op, const Shadow& sb, const Shadow& sa, Ctx& ctx) {
  const int i = op.i, j = op.j;
  const diff_t n = op.n;
  switch (op.k) {
    case K_CRAW:
      ::new (g_pstore[i]) Ptr{bufp(op.b) + op.o};
      break;
    case K_CNULLRAW:
      ::new (g_pstore[i]) Ptr{static_cast<Elem*>(nullptr)};
      break;
    case K_CDEF:
      ::new (g_pstore[i]) Ptr;
      break;
    case K_CCOPY:
      ::new (g_pstore[i]) Ptr{std::as_const(P(j))};
      break;
    case K_CMOVE:
      ::new (g_pstore[i]) Ptr{std::move(P(j))};
      break;
    case K_ACOPY: {
      Ptr& r = (P(i) = std::as_const(P(j)));
      check_self(ctx, &r, &P(i), "copy assignment");
      break;
    }
    case K_AMOVE: {
      Ptr& r = (P(i) = std::move(P(j)));
      check_self(ctx, &r, &P(i), "move assignment");
      break;
    }
    case K_PREINC: {
      Ptr& r = ++P(i);
      check_self(ctx, &r, &P(i), "pre-increment");
      break;
    }
    case K_PREDEC: {
      Ptr& r = --P(i);
      check_self(ctx, &r, &P(i), "pre-decrement");
      break;
    }
    case K_POSTINC: {
      const Ptr r = P(i)++;
      check_result(ctx, sa, r, rawp(sb.p[i]), "post-increment");
      break;
    }
    case K_POSTDEC: {
      const Ptr r = P(i)--;
      check_result(ctx, sa, r, rawp(sb.p[i]), "post-decrement");
      break;
    }
    case K_ADDEQ: {
      Ptr& r = (P(i) += n);
      check_self(ctx, &r, &P(i), "operator+=");
      break;
    }
    case K_SUBEQ: {
      Ptr& r = (P(i) -= n);
      check_self(ctx, &r, &P(i), "operator-=");
      break;
    }
    case K_PLUS: {
      const Ptr r = std::as_const(P(i)) + n;
      check_result(ctx, sa, r, rawp(sb.p[i]) + n, "pointer + n");
      break;
    }
    case K_MINUS: {
      const Ptr r = std::as_const(P(i)) - n;
      check_result(ctx, sa, r, rawp(sb.p[i]) - n, "pointer - n");
      break;
    }
    case K_NPLUS: {
      const Ptr r = n + std::as_const(P(i));
      check_result(ctx, sa, r, rawp(sb.p[i]) + n, "n + pointer");
      break;
    }
    case K_DESTROY:
      P(i).~Ptr();
      scrub_p(i);
      break;
    case K_CBEGIN:
      ::new (g_pstore[i]) Ptr{std::as_const(S(j)).begin()};
      break;
    case K_CEND:
      ::new (g_pstore[i]) Ptr{std::as_const(S(j)).end()};
      break;
    case K_ABEGIN: {
      Ptr& r = (P(i) = std::as_const(S(j)).begin());
      check_self(ctx, &r, &P(i), "move assignment");
      break;
    }
    case K_AEND: {
      Ptr& r = (P(i) = std::as_const(S(j)).end());
      check_self(ctx, &r, &P(i), "move assignment");
      break;
    }
    case K_SRAW: {
      const std::span<Elem> sp{bufp(op.b) + op.o,
                               static_cast<std::size_t>(op.len)};
      ::new (g_sstore[i]) Span{sp};
      break;
    }
    case K_SEMPTY: {
      const std::span<Elem> sp{};
      ::new (g_sstore[i]) Span{sp};
      break;
    }
    case K_SDEF:
      ::new (g_sstore[i]) Span;
      break;
    case K_SCCOPY:
      ::new (g_sstore[i]) Span{std::as_const(S(j))};
      break;
    case K_SCMOVE:
      ::new (g_sstore[i]) Span{std::move(S(j))};
      break;
    case K_SACOPY: {
      Span& r = (S(i) = std::as_const(S(j)));
      check_self(ctx, &r, &S(i), "span copy assignment");
      break;
    }
    case K_SAMOVE: {
      Span& r = (S(i) = std::move(S(j)));
      check_self(ctx, &r, &S(i), "span move assignment");
      break;
    }
    case K_SDESTROY:
      S(i).~Span();
      scrub_s(i);
      break;
    case K_COUNT:
      break;
  }
}

// The length kept by a span whose start pointer is null (default constructed
// with length 0, or moved from) is taken from the implementation.  Returns
// false if it leaves the universe.
bool adopt(Shadow& sh) {
  for (int i = 0; i < gS; ++i)
    if (sh.s[i].st == 1) {
      const std::size_t len = std::as_const(S(i)).size();
      if (len > static_cast<std::size_t>(gL)) return false;
      sh.s[i].len = static_cast<std::uint8_t>(len);
    }
  return true;
}

// Replays a history on scrubbed storage without oracles (every prefix was
// checked when it was first explored).
volatile sig_atomic_t g_cur_step = 0;
// 0 while an operation of the alphabet runs, 1 while the observers run.
volatile sig_atomic_t g_abort_phase = 0;

void replay_real(const std::uint16_t* h, std::size_t n, Shadow& sh, Ctx& ctx) {
  sh = Shadow{};
  for (std::size_t k = 0; k < n; ++k) {
    g_cur_step = static_cast<sig_atomic_t>(k);
    const Op& op = g_ops[h[k]];
    const Shadow sb = sh;
    apply_model(op, sh);
    apply_real(op, sb, sh, ctx);
    adopt(sh);
  }
  g_cur_step = static_cast<sig_atomic_t>(n);
}

// Destroys every live object in slot order.
void teardown(const Shadow& sh) {
  for (int i = 0; i < gP; ++i)
    if (sh.p[i].st != 0) {
      P(i).~Ptr();
      scrub_p(i);
    }
  for (int i = 0; i < gS; ++i)
    if (sh.s[i].st != 0) {
      S(i).~Span();
      scrub_s(i);
    }
}

// Forgets the objects without running destructors (after a detected failure,
// where destructors could trip over the corrupted registry).
void abandon() {
  scrub_all();
  clear_registry();
}

// ---------------------------------------------------------------------------
// Value oracle: every live real object against the shadow
// ---------------------------------------------------------------------------

std::string sl(const char* kind, int i) { return kind + std::to_string(i); }

void check_ptr_slot(int i, const SP& x, Ctx& ctx) {
  const Ptr& p = std::as_const(P(i));
  Elem* const raw = rawp(x);
  if (p.get() != raw) {
    ctx.fail(x.st == 1 ? "null-value" : "value", true,
             "get() differs from the raw pointer",
             sl("p", i) + ": got=" + label(p.get()) +
                 " expected=" + label(raw));
    return;  // nothing else is meaningful (and could be out of bounds)
  }
  if (p.operator->() != raw || std::to_address(p) != raw)
    ctx.fail("arrow", true, "operator-> differs from the raw pointer",
             sl("p", i));
  if (x.st != 2) return;
  if (x.o < gL) {
    Elem& r = *p;
    if (&r != raw || r.v != raw->v)
      ctx.fail("deref", true, "operator* differs from the raw pointer",
               sl("p", i) + " at " + label(raw));
    if (p->v != raw->v)
      ctx.fail("arrow", true, "p->v differs from the raw pointer", sl("p", i));
  }
  for (diff_t k = -static_cast<diff_t>(x.o); x.o + k < gL; ++k) {
    Elem& r = p[k];
    if (&r != raw + k || r.v != raw[k].v)
      ctx.fail("index", true, "operator[] differs from the raw pointer",
               sl("p", i) + " at " + label(raw) + " k=" + std::to_string(k));
  }
}

void check_ptr_pair(int i, int j, const SP& x, const SP& y, Ctx& ctx) {
  const Ptr& p = std::as_const(P(i));
  const Ptr& q = std::as_const(P(j));
  Elem* const a = rawp(x);
  Elem* const b = rawp(y);
  const std::string where =
      sl("p", i) + "=" + label(a) + " " + sl("p", j) + "=" + label(b);
  if ((p == q) != (a == b))
    ctx.fail("compare", true, "operator== differs from raw pointers", where);
  if ((p != q) != (a != b))
    ctx.fail("compare", true, "operator!= differs from raw pointers", where);
  // Ordering and difference of raw pointers are only defined within one array
  // (or for two null pointers).
  const bool comparable =
      (x.st == 1 && y.st == 1) || (x.st == 2 && y.st == 2 && x.b == y.b);
  if (!comparable) return;
  if ((p < q) != (a < b))
    ctx.fail("compare", true, "operator< differs from raw pointers", where);
  if ((p <= q) != (a <= b))
    ctx.fail("compare", true, "operator<= differs from raw pointers", where);
  if ((p > q) != (a > b))
    ctx.fail("compare", true, "operator> differs from raw pointers", where);
  if ((p >= q) != (a >= b))
    ctx.fail("compare", true, "operator>= differs from raw pointers", where);
  if ((p - q) != (a - b))
    ctx.fail("difference", true, "pointer difference differs from raw pointers",
             where + " got=" + std::to_string(p - q) +
                 " expected=" + std::to_string(a - b));
}

void check_span_slot(int i, const SS& x, Ctx& ctx) {
  const Span& s = std::as_const(S(i));
  Elem* const start = rawstart(x);
  const std::string where = sl("s", i) + "=[" + label(start) + ",len" +
                            std::to_string(x.len) + "]";
  if (s.begin().get() != start) {
    ctx.fail(x.st == 1 ? "null-value" : "span-elements", true,
             "span begin() differs from the start of the std::span",
             where + " got=" + label(s.begin().get()));
    return;
  }
  // A span whose start was moved away carries no element sequence; nothing is
  // demanded of it beyond being assignable and destructible.
  if (!span_iterable(x)) return;
  const std::size_t len = x.len;
  const std::span<Elem> ref{start, len};
  if (s.size() != ref.size() || std::ranges::size(s) != ref.size() ||
      std::ranges::empty(s) != ref.empty())
    ctx.fail("span-size", true, "span size differs from the std::span",
             where + " got=" + std::to_string(s.size()));
  if (s.end().get() != start + len) {
    ctx.fail("span-elements", true,
             "span end() differs from the end of the std::span",
             where + " got=" + label(s.end().get()));
    return;  // do not iterate towards a wrong end
  }
  if (std::ranges::data(s) != ref.data())
    ctx.fail("span-elements", true, "ranges::data differs", where);
  if ((s.end() - s.begin()) != static_cast<diff_t>(len))
    ctx.fail("span-size", true, "end() - begin() differs from the size", where);
  std::size_t idx = 0;
  bool bad = false;
  for (auto it = s.begin(); it != s.end(); ++it, ++idx) {
    if (idx >= len) {
      bad = true;
      break;
    }
    if (&*it != start + idx || (*it).v != start[idx].v) bad = true;
  }
  if (idx != len) bad = true;
  idx = 0;
  for (Elem& e : s) {
    if (idx >= len || &e != start + idx) bad = true;
    ++idx;
  }
  if (idx != len) bad = true;
  idx = len;
  for (auto it = s.end(); it != s.begin();) {
    --it;
    if (idx == 0) {
      bad = true;
      break;
    }
    --idx;
    if (it.get() != start + idx) bad = true;
  }
  if (idx != 0) bad = true;
  for (std::size_t k = 0; k < len; ++k)
    if (&s.begin()[static_cast<diff_t>(k)] != start + k) bad = true;
  if (!std::ranges::equal(s, ref)) bad = true;
  if (bad)
    ctx.fail("span-elements", true,
             "span element sequence differs from the std::span", where);
}

void check_state(const Shadow& sh, Ctx& ctx) {
  // First directly after the operation, then again after the observers below
  // have created and destroyed their own temporaries.
  const std::uint64_t before = ctx.total;
  check_registry(sh, nullptr, ctx, "registry");
  const bool registry_ok = ctx.total == before;
  g_abort_phase = 1;
  for (int i = 0; i < gP; ++i)
    if (sh.p[i].st != 0) check_ptr_slot(i, sh.p[i], ctx);
  if (!ctx.value_bad)
    for (int i = 0; i < gP; ++i)
      for (int j = 0; j < gP; ++j)
        if (sh.p[i].st != 0 && sh.p[j].st != 0)
          check_ptr_pair(i, j, sh.p[i], sh.p[j], ctx);
  for (int i = 0; i < gS; ++i)
    if (sh.s[i].st != 0) check_span_slot(i, sh.s[i], ctx);
  if (registry_ok)
    check_registry(sh, nullptr, ctx, "registry-after-observers");
  g_abort_phase = 0;
}

// ---------------------------------------------------------------------------
// Fork probes: quiescent / pause / resume
// ---------------------------------------------------------------------------

int g_devnull = -1;
volatile unsigned char* g_progress = nullptr;  // shared with probe children

enum ProbeKind { PR_QUIESCENT, PR_PAUSE_RESUME, PR_RESUME_FORCED, PR_NDEBUG_ALL };

struct ProbeOut {
  bool exit0 = false;
  bool sigabrt = false;
  int progress = 0;
  int status = 0;
};

std::uint64_t g_forks = 0;

// The child is a copy of this process, i.e. it holds the replayed wrappers
// and the registry of the state under test.
ProbeOut run_probe(ProbeKind kind, [[maybe_unused]] const std::uint16_t* h,
                   [[maybe_unused]] std::size_t n,
                   [[maybe_unused]] const Shadow& sh) {
  *g_progress = 0;
  ++g_forks;
  const pid_t c = fork();
  if (c < 0) {
    std::perror("fork");
    _exit(5);
  }
  if (c == 0) {
    signal(SIGABRT, SIG_DFL);
    dup2(g_devnull, 2);
    auto& tt = unodb::this_thread();
    switch (kind) {
      case PR_QUIESCENT:
        tt.quiescent();
        *g_progress = 1;
        break;
      case PR_PAUSE_RESUME:
        tt.qsbr_pause();
        *g_progress = 1;
        tt.qsbr_resume();
        *g_progress = 2;
        break;
      case PR_RESUME_FORCED:
        // A paused thread cannot create a non-null wrapper in an assertion
        // build (registration asserts !paused), so the state "paused with a
        // live wrapper" is entered by setting the flag directly.
        tt.paused = true;
        *g_progress = 1;
        tt.qsbr_resume();
        *g_progress = 2;
        break;
      case PR_NDEBUG_ALL: {
        tt.quiescent();
        *g_progress = 1;
        tt.qsbr_pause();
        *g_progress = 2;
        tt.qsbr_resume();
        *g_progress = 3;
        // Wrappers created while paused, then resume.
        teardown(sh);
        tt.qsbr_pause();
        *g_progress = 4;
        Shadow tmp;
        Ctx scratch;
        replay_real(h, n, tmp, scratch);
        tt.qsbr_resume();
        *g_progress = 5;
        tt.quiescent();
        *g_progress = 6;
        break;
      }
    }
    _exit(0);
  }
  int st = 0;
  while (waitpid(c, &st, 0) < 0) {
    if (errno != EINTR) {
      std::perror("waitpid");
      _exit(5);
    }
  }
  ProbeOut r;
  r.status = st;
  r.exit0 = WIFEXITED(st) && WEXITSTATUS(st) == 0;
  r.sigabrt = WIFSIGNALED(st) && WTERMSIG(st) == SIGABRT;
  r.progress = *g_progress;
  return r;
}

std::string probe_detail(const ProbeOut& r, const Shadow& sh) {
  std::string d = "child ";
  if (r.exit0)
    d += "exited 0";
  else if (r.sigabrt)
    d += "was killed by SIGABRT";
  else
    d += "ended with wait status " + std::to_string(r.status);
  d += " after " + std::to_string(r.progress) + " accepted call(s); state: " +
       describe(sh);
  return d;
}

// Runs the liveness probes for the state currently held by the real objects.
// Returns the number of probes (forks).
std::uint64_t run_probes(const std::uint16_t* h, std::size_t n,
                         const Shadow& sh, Ctx& ctx) {
  const bool live = live_nonnull(sh) > 0;
  std::uint64_t probes = 0;
#ifndef NDEBUG
  {
    ctx.begin_case(h, n, -1, "probe-quiescent");
    const ProbeOut r = run_probe(PR_QUIESCENT, h, n, sh);
    ++probes;
    if (live && !r.sigabrt)
      ctx.fail(r.exit0 ? "accepted-with-live-wrapper" : "abnormal-exit", false,
               "quiescent() was not rejected although a non-null wrapper is "
               "alive",
               probe_detail(r, sh));
    if (!live && !(r.exit0 && r.progress == 1))
      ctx.fail(r.sigabrt ? "rejected-without-live-wrapper" : "abnormal-exit",
               false,
               "quiescent() was rejected although no non-null wrapper is alive",
               probe_detail(r, sh));
  }
  {
    ctx.begin_case(h, n, -1, "probe-pause");
    const ProbeOut r = run_probe(PR_PAUSE_RESUME, h, n, sh);
    ++probes;
    if (live && !(r.sigabrt && r.progress == 0))
      ctx.fail(r.sigabrt ? "rejected-late" : r.exit0
                                                 ? "accepted-with-live-wrapper"
                                                 : "abnormal-exit",
               false,
               "qsbr_pause() was not rejected although a non-null wrapper is "
               "alive",
               probe_detail(r, sh));
    if (!live && !(r.exit0 && r.progress == 2)) {
      ctx.subject = r.progress >= 1 ? "probe-resume" : "probe-pause";
      ctx.fail(r.sigabrt ? "rejected-without-live-wrapper" : "abnormal-exit",
               false,
               "qsbr_pause()/qsbr_resume() was rejected although no non-null "
               "wrapper is alive",
               probe_detail(r, sh));
    }
  }
  if (live) {
    ctx.begin_case(h, n, -1, "probe-resume");
    const ProbeOut r = run_probe(PR_RESUME_FORCED, h, n, sh);
    ++probes;
    if (!(r.sigabrt && r.progress == 1))
      ctx.fail(r.exit0 ? "accepted-with-live-wrapper" : "abnormal-exit", false,
               "qsbr_resume() was not rejected although a non-null wrapper is "
               "alive",
               probe_detail(r, sh));
  }
#else
  {
    (void)live;
    ctx.begin_case(h, n, -1, "probe-ndebug");
    const ProbeOut r = run_probe(PR_NDEBUG_ALL, h, n, sh);
    ++probes;
    if (!(r.exit0 && r.progress == 6))
      ctx.fail("rejected", false,
               "quiescent/pause/resume was not accepted in an NDEBUG build",
               probe_detail(r, sh));
  }
#endif
  return probes;
}

// ---------------------------------------------------------------------------
// Serialization and pipes
// ---------------------------------------------------------------------------

struct Buf {
  std::vector<std::uint8_t> d;
  void raw(const void* p, std::size_t n) {
    const std::size_t old = d.size();
    d.resize(old + n);
    std::memcpy(d.data() + old, p, n);
  }
  void u8(std::uint8_t v) { d.push_back(v); }
  void u16(std::uint16_t v) { raw(&v, 2); }
  void u32(std::uint32_t v) { raw(&v, 4); }
  void u64(std::uint64_t v) { raw(&v, 8); }
  void str(const std::string& s) {
    u32(static_cast<std::uint32_t>(s.size()));
    raw(s.data(), s.size());
  }
};

struct Rd {
  const std::uint8_t* p;
  const std::uint8_t* e;
  void need(std::size_t n) const {
    if (static_cast<std::size_t>(e - p) < n) {
      std::fprintf(stderr, "wrap: truncated message\n");
      _exit(6);
    }
  }
  void raw(void* o, std::size_t n) {
    need(n);
    std::memcpy(o, p, n);
    p += n;
  }
  std::uint8_t u8() {
    std::uint8_t v;
    raw(&v, 1);
    return v;
  }
  std::uint16_t u16() {
    std::uint16_t v;
    raw(&v, 2);
    return v;
  }
  std::uint32_t u32() {
    std::uint32_t v;
    raw(&v, 4);
    return v;
  }
  std::uint64_t u64() {
    std::uint64_t v;
    raw(&v, 8);
    return v;
  }
  std::string str() {
    const std::uint32_t n = u32();
    need(n);
    std::string s(reinterpret_cast<const char*>(p), n);
    p += n;
    return s;
  }
};

bool write_all(int fd, const void* p, std::size_t n) {
  const auto* b = static_cast<const std::uint8_t*>(p);
  while (n > 0) {
    const ssize_t w = write(fd, b, n);
    if (w < 0) {
      if (errno == EINTR) continue;
      return false;
    }
    b += w;
    n -= static_cast<std::size_t>(w);
  }
  return true;
}

bool read_all(int fd, void* p, std::size_t n) {
  auto* b = static_cast<std::uint8_t*>(p);
  while (n > 0) {
    const ssize_t r = read(fd, b, n);
    if (r < 0) {
      if (errno == EINTR) continue;
      return false;
    }
    if (r == 0) return false;
    b += r;
    n -= static_cast<std::size_t>(r);
  }
  return true;
}

void put_viols(Buf& out, const Ctx& ctx) {
  out.u64(ctx.total);
  out.u64(ctx.registry_checks);
  out.u32(static_cast<std::uint32_t>(ctx.viols.size()));
  for (const Viol& v : ctx.viols) {
    out.u16(static_cast<std::uint16_t>(v.hist.size()));
    for (auto o : v.hist) out.u16(o);
    out.str(v.sig);
    out.str(v.what);
    out.str(v.detail);
  }
}

// ---------------------------------------------------------------------------
// Worker process
// ---------------------------------------------------------------------------

// What the worker is executing right now, for the SIGABRT handler: an abort
// inside a wrapper operation (a library assertion) is attributed to the
// history being executed.
constexpr int HMAX = 256;
std::uint16_t g_abort_hist[HMAX];
volatile sig_atomic_t g_abort_hlen = 0;  // ops of the state history
volatile sig_atomic_t g_abort_op = -1;   // op being applied on top, or -1
int g_abort_fd = -1;

struct AbortRec {
  std::uint32_t hlen;
  std::int32_t op;
  std::uint32_t step;
  std::uint32_t phase;
  std::uint16_t hist[HMAX];
};

extern "C" void on_sigabrt(int) {
  AbortRec rec;
  std::memset(&rec, 0, sizeof rec);
  rec.hlen = static_cast<std::uint32_t>(g_abort_hlen);
  rec.op = static_cast<std::int32_t>(g_abort_op);
  rec.step = static_cast<std::uint32_t>(g_cur_step);
  rec.phase = static_cast<std::uint32_t>(g_abort_phase);
  for (std::uint32_t k = 0; k < rec.hlen && k < HMAX; ++k)
    rec.hist[k] = g_abort_hist[k];
  const char tag = 'A';
  (void)!write(g_abort_fd, &tag, 1);
  (void)!write(g_abort_fd, &rec, sizeof rec);
  _exit(3);
}

void set_current(const std::uint16_t* h, std::size_t n, int op) {
  g_abort_hlen = 0;
  for (std::size_t k = 0; k < n && k < HMAX; ++k) g_abort_hist[k] = h[k];
  g_abort_hlen = static_cast<sig_atomic_t>(std::min<std::size_t>(n, HMAX));
  g_abort_op = op;
}

struct Counters {
  std::uint64_t transitions = 0, traces = 0, probes = 0, forks = 0;
};

constexpr std::uint32_t PRUNED = 0xFFFFFFFFu;

// Executes one transition (history h, then op) with all oracles.  Leaves the
// storage scrubbed.  Returns the successor code, or PRUNED.
std::uint32_t do_transition(const std::uint16_t* h, std::size_t n, int opi,
                            Ctx& ctx, Counters& cnt) {
  const Op& op = g_ops[static_cast<std::size_t>(opi)];
  Shadow sb;
  Ctx scratch;
  set_current(h, n, -1);
  replay_real(h, n, sb, scratch);
  ++cnt.traces;
  set_current(h, n, opi);
  ctx.begin_case(h, n, opi, kind_name[op.k]);
  Shadow sa = sb;
  apply_model(op, sa);
  apply_real(op, sb, sa, ctx);
  if (!adopt(sa))
    ctx.fail("span-size", true,
             "a span with a null start reports a size outside the universe",
             describe(sa));
  check_state(sa, ctx);
  ++cnt.transitions;
  if (ctx.step_viols > 0) {
    const bool prune = ctx.value_bad;
    abandon();
    return prune ? PRUNED : encode(sa);
  }
  // Tear down through the real destructors; the registry must end up empty.
  // This is the history continued by one destroy per live slot.
  teardown(sa);
  if (!registry_empty()) {
    std::vector<std::uint16_t> full(h, h + n);
    full.push_back(static_cast<std::uint16_t>(opi));
    for (int i = 0; i < gP; ++i)
      if (sa.p[i].st != 0)
        full.push_back(static_cast<std::uint16_t>(
            g_op_by_name.at("d" + std::to_string(i))));
    for (int i = 0; i < gS; ++i)
      if (sa.s[i].st != 0)
        full.push_back(static_cast<std::uint16_t>(
            g_op_by_name.at("Sx" + std::to_string(i))));
    ctx.begin_case(full.data(), full.size(), -1, "destroy");
    check_registry(Shadow{}, nullptr, ctx, "registry");
    abandon();
  }
  return encode(sa);
}

// Memory the probe children never need is kept out of them
// (MADV_DONTFORK): the cost of fork() grows with the resident pages.
std::uint8_t* map_private(std::size_t n) {
  if (n == 0) n = 1;
  void* m = mmap(nullptr, n, PROT_READ | PROT_WRITE,
                 MAP_PRIVATE | MAP_ANONYMOUS, -1, 0);
  if (m == MAP_FAILED) _exit(5);
  madvise(m, n, MADV_DONTFORK);
  return static_cast<std::uint8_t*>(m);
}

void worker_expand(Rd& in, Buf& out, std::uint8_t* sent) {
  const bool probes_on = in.u8() != 0;
  const std::uint32_t count = in.u32();
  Ctx ctx;
  Counters cnt;
  g_forks = 0;
  std::vector<std::uint16_t> h;
  for (std::uint32_t s = 0; s < count; ++s) {
    const std::uint32_t code = in.u32();
    const std::uint16_t hlen = in.u16();
    h.resize(hlen);
    for (auto& o : h) o = in.u16();
    const Shadow sh0 = decode(code);

    if (probes_on) {
      Shadow sh;
      Ctx scratch;
      set_current(h.data(), h.size(), -1);
      replay_real(h.data(), h.size(), sh, scratch);
      ++cnt.traces;
      if (encode(sh) != code) {
        std::fprintf(stderr, "wrap: replay of a stored history diverged\n");
        _exit(7);
      }
      cnt.probes += run_probes(h.data(), h.size(), sh, ctx);
      teardown(sh);
      if (!registry_empty()) abandon();
    }

    const std::size_t npos = out.d.size();
    out.u32(0);
    std::uint32_t emitted = 0;
    for (std::size_t oi = 0; oi < g_ops.size(); ++oi) {
      if (!enabled(g_ops[oi], sh0)) continue;
      const std::uint32_t succ =
          do_transition(h.data(), h.size(), static_cast<int>(oi), ctx, cnt);
      if (succ == PRUNED) continue;
      if (sent[succ >> 3] & (1u << (succ & 7))) continue;
      sent[succ >> 3] =
          static_cast<std::uint8_t>(sent[succ >> 3] | (1u << (succ & 7)));
      out.u16(static_cast<std::uint16_t>(oi));
      out.u32(succ);
      ++emitted;
    }
    std::memcpy(&out.d[npos], &emitted, 4);
  }
  cnt.forks = g_forks;
  out.u64(cnt.transitions);
  out.u64(cnt.traces);
  out.u64(cnt.probes);
  out.u64(cnt.forks);
  put_viols(out, ctx);
}

// Replays one history step by step with every oracle after every step and the
// liveness probes after every prefix.  Stops at the first violating step.
void worker_replay(Rd& in, Buf& out) {
  const std::uint16_t hlen = in.u16();
  std::vector<std::uint16_t> h(hlen);
  for (auto& o : h) o = in.u16();
  Ctx ctx;
  Counters cnt;
  g_forks = 0;
  Shadow sh;
  std::uint8_t status = 0;
  std::uint32_t bad_step = 0;
  scrub_all();
  ++cnt.traces;
  bool stopped = false;
  set_current(h.data(), 0, -1);
  cnt.probes += run_probes(h.data(), 0, sh, ctx);
  for (std::size_t k = 0; k < h.size() && !stopped; ++k) {
    const Op& op = g_ops[h[k]];
    if (!enabled(op, sh)) {
      status = 1;
      bad_step = static_cast<std::uint32_t>(k);
      abandon();
      stopped = true;
      break;
    }
    set_current(h.data(), k, h[k]);
    g_cur_step = static_cast<sig_atomic_t>(k);
    ctx.begin_case(h.data(), k, h[k], kind_name[op.k]);
    const Shadow sb = sh;
    apply_model(op, sh);
    apply_real(op, sb, sh, ctx);
    if (!adopt(sh))
      ctx.fail("span-size", true,
               "a span with a null start reports a size outside the universe",
               describe(sh));
    check_state(sh, ctx);
    ++cnt.transitions;
    if (ctx.step_viols > 0) {
      abandon();
      stopped = true;
      break;
    }
    set_current(h.data(), k + 1, -1);
    cnt.probes += run_probes(h.data(), k + 1, sh, ctx);
    if (ctx.total > 0) {
      abandon();
      stopped = true;
    }
  }
  if (!stopped) {
    teardown(sh);
    if (!registry_empty()) {
      ctx.begin_case(h.data(), h.size(), -1, "destroy");
      check_registry(Shadow{}, nullptr, ctx, "registry");
      abandon();
    }
  }
  cnt.forks = g_forks;
  out.u8(status);
  out.u32(bad_step);
  out.str(describe(sh));
  out.u32(static_cast<std::uint32_t>(live_nonnull(sh)));
  out.u64(cnt.transitions);
  out.u64(cnt.traces);
  out.u64(cnt.probes);
  out.u64(cnt.forks);
  put_viols(out, ctx);
}

[[noreturn]] void worker_main(int in_fd, int out_fd) {
  prctl(PR_SET_PDEATHSIG, SIGKILL);  // never outlive the master
  g_abort_fd = out_fd;
  struct sigaction sa;
  std::memset(&sa, 0, sizeof sa);
  sa.sa_handler = on_sigabrt;
  sigaction(SIGABRT, &sa, nullptr);
  void* shm = mmap(nullptr, 4096, PROT_READ | PROT_WRITE,
                   MAP_SHARED | MAP_ANONYMOUS, -1, 0);
  if (shm == MAP_FAILED) _exit(5);
  g_progress = static_cast<volatile unsigned char*>(shm);
  scrub_all();
  std::uint8_t* const sent = map_private(total_codes() / 8 + 1);
  for (;;) {
    char cmd;
    if (!read_all(in_fd, &cmd, 1)) _exit(0);
    if (cmd == 'Q') _exit(0);
    std::uint64_t len;
    if (!read_all(in_fd, &len, 8)) _exit(6);
    std::uint8_t* const payload = map_private(len);
    if (len && !read_all(in_fd, payload, len)) _exit(6);
    Rd rd{payload, payload + len};
    Buf out;
    if (cmd == 'E')
      worker_expand(rd, out, sent);
    else if (cmd == 'P')
      worker_replay(rd, out);
    else
      _exit(6);
    const char tag = 'R';
    const std::uint64_t olen = out.d.size();
    if (!write_all(out_fd, &tag, 1) || !write_all(out_fd, &olen, 8) ||
        !write_all(out_fd, out.d.data(), out.d.size()))
      _exit(6);
    munmap(payload, len == 0 ? 1 : len);
  }
}

// ---------------------------------------------------------------------------
// Master
// ---------------------------------------------------------------------------

struct Worker {
  pid_t pid = -1;
  int to = -1;    // master writes
  int from = -1;  // master reads
};

std::vector<Worker> g_workers;

void spawn_workers(int n) {
  for (int w = 0; w < n; ++w) {
    int a[2], b[2];
    if (pipe(a) != 0 || pipe(b) != 0) {
      std::perror("pipe");
      std::exit(2);
    }
    const pid_t c = fork();
    if (c < 0) {
      std::perror("fork");
      std::exit(2);
    }
    if (c == 0) {
      close(a[1]);
      close(b[0]);
      for (const Worker& o : g_workers) {
        close(o.to);
        close(o.from);
      }
      worker_main(a[0], b[1]);
    }
    close(a[0]);
    close(b[1]);
    Worker wk;
    wk.pid = c;
    wk.to = a[1];
    wk.from = b[0];
    g_workers.push_back(wk);
  }
}

void stop_workers() {
  for (const Worker& w : g_workers) {
    const char q = 'Q';
    (void)!write(w.to, &q, 1);
    close(w.to);
  }
  for (const Worker& w : g_workers) {
    int st;
    waitpid(w.pid, &st, 0);
    close(w.from);
  }
  g_workers.clear();
}

[[noreturn]] void infra(const std::string& msg) {
  std::fprintf(stderr, "wrap: infrastructure error: %s\n", msg.c_str());
  for (const Worker& w : g_workers) kill(w.pid, SIGKILL);
  std::exit(2);
}

void send_cmd(const Worker& w, char cmd, const Buf& b) {
  const std::uint64_t len = b.d.size();
  if (!write_all(w.to, &cmd, 1) || !write_all(w.to, &len, 8) ||
      !write_all(w.to, b.d.data(), b.d.size()))
    infra("cannot write to a worker");
}

// Returns false (and fills rec) if the worker aborted inside the library.
bool recv_result(const Worker& w, std::vector<std::uint8_t>& payload,
                 AbortRec& rec) {
  char tag;
  if (!read_all(w.from, &tag, 1)) infra("a worker died without a report");
  if (tag == 'A') {
    if (!read_all(w.from, &rec, sizeof rec)) infra("truncated abort record");
    return false;
  }
  if (tag != 'R') infra("bad tag from a worker");
  std::uint64_t len;
  if (!read_all(w.from, &len, 8)) infra("truncated result");
  payload.resize(len);
  if (len && !read_all(w.from, payload.data(), len)) infra("truncated result");
  return true;
}

std::string universe_tag() {
  return "L" + std::to_string(gL) + "P" + std::to_string(gP) + "S" +
         std::to_string(gS);
}

std::string hist_string(const std::vector<std::uint16_t>& h) {
  std::string r = universe_tag() + "/";
  for (std::size_t k = 0; k < h.size(); ++k) {
    if (k) r += ",";
    r += g_ops[h[k]].name;
  }
  return r;
}

std::string jesc(const std::string& s) {
  std::string r;
  for (const char ch : s) {
    const auto c = static_cast<unsigned char>(ch);
    if (c == '"' || c == '\\') {
      r += '\\';
      r += ch;
    } else if (c < 0x20) {
      char b[8];
      std::snprintf(b, sizeof b, "\\u%04x", c);
      r += b;
    } else {
      r += ch;
    }
  }
  return r;
}

struct Totals {
  std::uint64_t transitions = 0, traces = 0, probes = 0, forks = 0;
  std::uint64_t registry_checks = 0;
  std::uint64_t viol_total = 0;
  std::vector<Viol> viols;
};

void take_viols(Rd& rd, Totals& t) {
  t.viol_total += rd.u64();
  t.registry_checks += rd.u64();
  const std::uint32_t nv = rd.u32();
  for (std::uint32_t k = 0; k < nv; ++k) {
    Viol v;
    v.hist.resize(rd.u16());
    for (auto& o : v.hist) o = rd.u16();
    v.sig = rd.str();
    v.what = rd.str();
    v.detail = rd.str();
    if (t.viols.size() < VIOL_CAP) t.viols.push_back(std::move(v));
  }
}

void take_counters(Rd& rd, Totals& t) {
  t.transitions += rd.u64();
  t.traces += rd.u64();
  t.probes += rd.u64();
  t.forks += rd.u64();
}

void abort_violation(const AbortRec& rec, Totals& t) {
  Viol v;
  const bool in_replay = rec.step < rec.hlen;
  const std::uint32_t n = in_replay ? rec.step + 1 : rec.hlen;
  v.hist.assign(rec.hist, rec.hist + std::min<std::uint32_t>(n, HMAX));
  if (!in_replay && rec.op >= 0)
    v.hist.push_back(static_cast<std::uint16_t>(rec.op));
  const std::string subj =
      v.hist.empty() ? std::string("startup")
                     : std::string(kind_name[g_ops[v.hist.back()].k]);
  v.sig = "C17/" + subj +
          (rec.phase == 0 ? "/library-abort" : "/library-abort-in-observers");
  v.what = rec.phase == 0
               ? "the process aborted (library assertion) while executing the "
                 "last operation of the history"
               : "the process aborted (library assertion) while reading the "
                 "wrappers (get, *, [], comparisons, difference, span "
                 "iteration) after the last operation of the history";
  v.detail = "SIGABRT inside a wrapper operation of a legal history";
  ++t.viol_total;
  if (t.viols.size() < VIOL_CAP) t.viols.push_back(std::move(v));
}

struct Options {
  std::string tier = "quick";
  std::string out;
  std::string only;
  std::string replay;
  std::string config_label;
  std::string universe;  // optional override of the tier's L<l>P<p>S<s>
  int threads = 0;
  bool has_replay = false;
};

#ifdef NDEBUG
constexpr const char* BUILD_CONFIG = "ndebug";
#else
constexpr const char* BUILD_CONFIG = "debug";
#endif

std::string viols_json(const Totals& t) {
  std::string j = "  \"violations\": [";
  for (std::size_t k = 0; k < t.viols.size(); ++k) {
    const Viol& v = t.viols[k];
    j += k ? ",\n    " : "\n    ";
    j += "{\"what\": \"" + jesc(v.what) + "\", \"signature\": \"" +
         jesc(v.sig) + "\", \"replay_arg\": \"" + jesc(hist_string(v.hist)) +
         "\", \"detail\": {\"config\": \"" + BUILD_CONFIG +
         "\", \"info\": \"" + jesc(v.detail) + "\"}}";
  }
  j += t.viols.empty() ? "],\n" : "\n  ],\n";
  j += "  \"violations_total\": " + std::to_string(t.viol_total) + "\n";
  return j;
}

const char* const RULE =
    "breadth-first search to the fixpoint over abstract states (contents of "
    "the pointer slots and span slots: storage raw / null / (buffer, offset[, "
    "length])); every enabled operation of the alphabet is applied to real "
    "qsbr_ptr / qsbr_ptr_span objects rebuilt by replaying the shortest "
    "history of the state on scrubbed storage; after every transition all "
    "live objects are compared with shadow raw pointers / std::spans and (in "
    "assertion builds) the thread's active pointer multiset with the live "
    "non-null wrappers; every state is probed in forked children with "
    "quiescent(), qsbr_pause()+qsbr_resume() and qsbr_resume(); non-trivial = "
    "state with at least one live non-null wrapper";

void write_out(const Options& opt, const std::string& body) {
  FILE* f = std::fopen(opt.out.c_str(), "w");
  if (f == nullptr) infra("cannot open --out file");
  std::fputs(body.c_str(), f);
  std::fclose(f);
}

struct Node {
  std::uint32_t code = 0;
  std::uint32_t parent = 0;
  std::uint16_t op = 0;
  std::uint16_t depth = 0;
};

std::vector<std::uint16_t> history_of(const std::vector<Node>& nodes,
                                      std::uint32_t id) {
  std::vector<std::uint16_t> h(nodes[id].depth);
  std::uint32_t cur = id;
  for (std::size_t k = h.size(); k > 0; --k) {
    h[k - 1] = nodes[cur].op;
    cur = nodes[cur].parent;
  }
  return h;
}

int run_bfs(const Options& opt) {
  const bool probes_on = opt.only != "bfs";
  const std::uint32_t ncodes = total_codes();
  std::vector<std::int32_t> visited(ncodes, -1);
  std::vector<Node> nodes;
  nodes.push_back(Node{});
  visited[0] = 0;
  std::vector<std::uint32_t> frontier{0};
  Totals tot;
  bool aborted = false;
  std::uint32_t max_depth = 0;
  std::uint64_t nontrivial = 0;
  const std::size_t W = g_workers.size();

  while (!frontier.empty() && !aborted) {
    const std::size_t n = frontier.size();
    const std::size_t chunk = (n + W - 1) / W;
    std::vector<std::pair<std::size_t, std::size_t>> ranges(W);
    for (std::size_t w = 0; w < W; ++w) {
      const std::size_t lo = std::min(n, w * chunk);
      const std::size_t hi = std::min(n, lo + chunk);
      ranges[w] = {lo, hi};
      Buf b;
      b.u8(probes_on ? 1 : 0);
      b.u32(static_cast<std::uint32_t>(hi - lo));
      for (std::size_t k = lo; k < hi; ++k) {
        const std::uint32_t id = frontier[k];
        b.u32(nodes[id].code);
        const auto h = history_of(nodes, id);
        b.u16(static_cast<std::uint16_t>(h.size()));
        for (auto o : h) b.u16(o);
      }
      send_cmd(g_workers[w], 'E', b);
    }
    std::vector<std::uint32_t> next;
    // If a worker aborts inside the library, the level is cut: so that nothing
    // emitted depends on the partition, only the completed levels are counted
    // and the first abort in frontier order is reported.
    const Totals level_start = tot;
    const std::size_t nodes_at_level_start = nodes.size();
    AbortRec first_abort;
    for (std::size_t w = 0; w < W; ++w) {
      std::vector<std::uint8_t> payload;
      AbortRec rec;
      if (!recv_result(g_workers[w], payload, rec)) {
        if (!aborted) first_abort = rec;
        aborted = true;
        continue;  // still drain the other workers of this level
      }
      Rd rd{payload.data(), payload.data() + payload.size()};
      for (std::size_t k = ranges[w].first; k < ranges[w].second; ++k) {
        const std::uint32_t id = frontier[k];
        const std::uint32_t ns = rd.u32();
        for (std::uint32_t s = 0; s < ns; ++s) {
          const std::uint16_t op = rd.u16();
          const std::uint32_t succ = rd.u32();
          if (succ >= ncodes) infra("successor code out of range");
          if (visited[succ] >= 0) continue;
          visited[succ] = static_cast<std::int32_t>(nodes.size());
          Node nd;
          nd.code = succ;
          nd.parent = id;
          nd.op = op;
          nd.depth = static_cast<std::uint16_t>(nodes[id].depth + 1);
          max_depth = std::max<std::uint32_t>(max_depth, nd.depth);
          next.push_back(static_cast<std::uint32_t>(nodes.size()));
          nodes.push_back(nd);
        }
      }
      take_counters(rd, tot);
      take_viols(rd, tot);
    }
    if (aborted) {
      tot = level_start;
      nodes.resize(nodes_at_level_start);
      abort_violation(first_abort, tot);
    }
    frontier.swap(next);
  }
  // A worker that aborted is gone; the others are stopped normally.
  stop_workers();

  for (const Node& nd : nodes) nontrivial += live_nonnull(decode(nd.code)) > 0;
  const bool exhaustive = !aborted;
  const std::uint64_t states = nodes.size();

  std::string j = "{\n";
  j += "  \"property\": \"C17\",\n";
  j += "  \"tier\": \"" + jesc(opt.tier) + "\",\n";
  j += std::string("  \"config\": \"") + BUILD_CONFIG + "\",\n";
  j += std::string("  \"exhaustive\": ") + (exhaustive ? "true" : "false") +
       ",\n";
  j += "  \"evaluations\": " + std::to_string(tot.transitions + tot.probes) +
       ",\n";
  j += "  \"distinct_nontrivial\": " + std::to_string(nontrivial) + ",\n";
  j += "  \"states\": " + std::to_string(states) + ",\n";
  j += "  \"transitions\": " + std::to_string(tot.transitions) + ",\n";
  j += "  \"traces_validated_against_impl\": " + std::to_string(tot.traces) +
       ",\n";
  j += "  \"rule\": \"" + jesc(RULE) + "\",\n";
  j += "  \"samples\": [";
  {
    const std::uint32_t ids[3] = {static_cast<std::uint32_t>(states / 3),
                                  static_cast<std::uint32_t>(2 * states / 3),
                                  static_cast<std::uint32_t>(states - 1)};
    for (int k = 0; k < 3; ++k) {
      const auto h = history_of(nodes, ids[k]);
      const Shadow sh = decode(nodes[ids[k]].code);
      j += k ? ",\n    " : "\n    ";
      j += "{\"history\": \"" + jesc(hist_string(h)) + "\", \"state\": \"" +
           jesc(describe(sh)) + "\", \"depth\": " + std::to_string(h.size()) +
           ", \"live_nonnull_wrappers\": " + std::to_string(live_nonnull(sh)) +
           "}";
    }
  }
  j += "\n  ],\n";
  j += "  \"parts\": [\n";
  j += "    {\"name\": \"value-semantics BFS (real objects vs shadow raw "
       "pointers)\", \"size\": " +
       std::to_string(states) +
       ", \"checks\": " + std::to_string(tot.transitions) +
       ", \"exhaustive\": " + (exhaustive ? "true" : "false") + "},\n";
  j += "    {\"name\": \"registry comparison (active_ptrs vs live non-null "
       "wrappers; compiled out under NDEBUG)\", \"size\": " +
       std::to_string(states) +
       ", \"checks\": " + std::to_string(tot.registry_checks) +
       ", \"exhaustive\": " + (exhaustive ? "true" : "false") + "},\n";
  j += "    {\"name\": \"fork probes (quiescent, pause+resume, resume)\", "
       "\"size\": " +
       std::to_string(probes_on ? states : 0) +
       ", \"checks\": " + std::to_string(tot.probes) +
       ", \"forks\": " + std::to_string(tot.forks) + ", \"exhaustive\": " +
       (exhaustive && probes_on ? "true" : "false") + "}\n";
  j += "  ],\n";
  j += "  \"extra\": {\"universe\": \"" + universe_tag() +
       "\", \"buffer_length\": " + std::to_string(gL) +
       ", \"pointer_slots\": " + std::to_string(gP) +
       ", \"span_slots\": " + std::to_string(gS) +
       ", \"alphabet_size\": " + std::to_string(g_ops.size()) +
       ", \"state_code_space\": " + std::to_string(ncodes) +
       ", \"max_bfs_depth\": " + std::to_string(max_depth) +
       ", \"config_label\": \"" + jesc(opt.config_label) + "\"},\n";
  j += viols_json(tot);
  j += "}\n";
  write_out(opt, j);
  return 0;
}

bool parse_replay(const std::string& arg, std::vector<std::uint16_t>& h) {
  // L<l>P<p>S<s>/op,op,...
  int l = 0, p = 0, s = 0, used = 0;
  if (std::sscanf(arg.c_str(), "L%dP%dS%d/%n", &l, &p, &s, &used) != 3 ||
      used == 0)
    return false;
  if (l < 1 || l > LMAX || p < 1 || p > PMAX || s < 0 || s > SMAX) return false;
  gL = l;
  gP = p;
  gS = s;
  build_span_tab();
  build_ops();
  std::string rest = arg.substr(static_cast<std::size_t>(used));
  std::size_t pos = 0;
  while (pos < rest.size()) {
    std::size_t e = rest.find(',', pos);
    if (e == std::string::npos) e = rest.size();
    const std::string tok = rest.substr(pos, e - pos);
    const auto it = g_op_by_name.find(tok);
    if (it == g_op_by_name.end()) return false;
    h.push_back(static_cast<std::uint16_t>(it->second));
    pos = e + 1;
  }
  return h.size() < HMAX;
}

int run_replay(const Options& opt, const std::vector<std::uint16_t>& h) {
  Buf b;
  b.u16(static_cast<std::uint16_t>(h.size()));
  for (auto o : h) b.u16(o);
  send_cmd(g_workers[0], 'P', b);
  std::vector<std::uint8_t> payload;
  AbortRec rec;
  Totals tot;
  std::string state = "(aborted)";
  std::uint32_t live = 0;
  if (!recv_result(g_workers[0], payload, rec)) {
    abort_violation(rec, tot);
  } else {
    Rd rd{payload.data(), payload.data() + payload.size()};
    const std::uint8_t status = rd.u8();
    const std::uint32_t bad = rd.u32();
    if (status != 0)
      infra("replay argument is not a legal history (operation " +
            std::to_string(bad) + " is not enabled)");
    state = rd.str();
    live = rd.u32();
    take_counters(rd, tot);
    take_viols(rd, tot);
  }
  stop_workers();
  std::string j = "{\n";
  j += "  \"property\": \"C17\",\n";
  j += "  \"tier\": \"" + jesc(opt.tier) + "\",\n";
  j += std::string("  \"config\": \"") + BUILD_CONFIG + "\",\n";
  j += "  \"exhaustive\": true,\n";
  j += "  \"evaluations\": " + std::to_string(tot.transitions + tot.probes) +
       ",\n";
  j += "  \"distinct_nontrivial\": " + std::to_string(live > 0 ? 1 : 0) + ",\n";
  j += "  \"states\": " + std::to_string(h.size() + 1) + ",\n";
  j += "  \"transitions\": " + std::to_string(tot.transitions) + ",\n";
  j += "  \"traces_validated_against_impl\": " + std::to_string(tot.traces) +
       ",\n";
  j += "  \"rule\": \"replay of one history: all value and registry oracles "
       "after every operation, liveness probes after every prefix\",\n";
  j += "  \"samples\": [{\"history\": \"" + jesc(hist_string(h)) +
       "\", \"state\": \"" + jesc(state) + "\"}],\n";
  j += "  \"parts\": [{\"name\": \"replay\", \"size\": 1, \"checks\": " +
       std::to_string(tot.transitions + tot.probes) +
       ", \"forks\": " + std::to_string(tot.forks) +
       ", \"exhaustive\": true}],\n";
  j += viols_json(tot);
  j += "}\n";
  write_out(opt, j);
  return 0;
}

}  // namespace

int main(int argc, char** argv) {
  Options opt;
  for (int a = 1; a < argc; ++a) {
    const std::string k = argv[a];
    const auto val = [&]() -> std::string {
      if (a + 1 >= argc) {
        std::fprintf(stderr, "wrap: missing value for %s\n", k.c_str());
        std::exit(2);
      }
      return argv[++a];
    };
    if (k == "--tier")
      opt.tier = val();
    else if (k == "--out")
      opt.out = val();
    else if (k == "--threads")
      opt.threads = std::atoi(val().c_str());
    else if (k == "--only")
      opt.only = val();
    else if (k == "--replay-arg") {
      opt.replay = val();
      opt.has_replay = true;
    } else if (k == "--config")
      opt.config_label = val();
    else if (k == "--universe")
      opt.universe = val();
    else {
      std::fprintf(stderr, "wrap: unknown option %s\n", k.c_str());
      return 2;
    }
  }
  if (opt.out.empty() || (opt.tier != "quick" && opt.tier != "thorough")) {
    std::fprintf(stderr,
                 "usage: wrap --tier quick|thorough --out <file> [--threads N] "
                 "[--only bfs] [--replay-arg S] [--config debug|ndebug] "
                 "[--universe L<l>P<p>S<s>]\n");
    return 2;
  }
  if (!opt.config_label.empty() && opt.config_label != BUILD_CONFIG)
    std::fprintf(stderr,
                 "wrap: note: --config %s but this binary was built as %s\n",
                 opt.config_label.c_str(), BUILD_CONFIG);
  if (opt.config_label.empty()) opt.config_label = BUILD_CONFIG;

  struct rlimit rl {
    0, 0
  };
  setrlimit(RLIMIT_CORE, &rl);
  signal(SIGPIPE, SIG_IGN);
  g_devnull = open("/dev/null", O_WRONLY);
  if (g_devnull < 0) {
    std::perror("/dev/null");
    return 2;
  }

  std::vector<std::uint16_t> replay_hist;
  if (opt.has_replay) {
    if (!parse_replay(opt.replay, replay_hist)) {
      std::fprintf(stderr, "wrap: cannot parse --replay-arg\n");
      return 2;
    }
  } else {
    if (opt.tier == "quick") {
      gL = 3;
      gP = 2;
      gS = 2;
    } else {
      gL = 4;
      gP = 3;
      gS = 2;
    }
    if (!opt.universe.empty()) {
      int l = 0, p = 0, s = 0;
      if (std::sscanf(opt.universe.c_str(), "L%dP%dS%d", &l, &p, &s) != 3 ||
          l < 1 || l > LMAX || p < 1 || p > PMAX || s < 0 || s > SMAX) {
        std::fprintf(stderr, "wrap: bad --universe (L1-4 P1-3 S0-2)\n");
        return 2;
      }
      gL = l;
      gP = p;
      gS = s;
    }
    build_span_tab();
    build_ops();
  }

  int threads = opt.threads;
  if (threads <= 0) {
    threads = static_cast<int>(std::thread::hardware_concurrency());
    if (threads <= 0) threads = 4;
    // Workers mostly wait for their probe children: oversubscribe.
    threads *= 2;
    if (threads > 64) threads = 64;
  }
  if (opt.has_replay) threads = 1;
  spawn_workers(threads);
  return opt.has_replay ? run_replay(opt, replay_hist) : run_bfs(opt);
}
