"""Shared driver code: builds keyed by the content of /repo, parallel job
runner, evidence writer, known findings, violation reporting."""
import concurrent.futures
import fcntl
import glob
import hashlib
import json
import os
import subprocess
import sys
import time

VERIF = os.path.dirname(os.path.dirname(os.path.abspath(__file__)))
REPO = os.environ.get("VERIF_REPO", "/repo")
BUILD = os.path.join(VERIF, "build")
NPROC = int(os.environ.get("VERIF_NPROC", "16"))

HOOK_GUARD = "UNODB_DETAIL_VERIF_HOOKS"
BASE_FLAGS = ["-std=c++20", "-g", "-fno-access-control", "-I" + REPO, "-pthread"]
# the configuration the repository's own baseline is built with
CONFIG_DEFAULT = ["-mavx2", "-DUNODB_DETAIL_WITH_STATS", "-DUNODB_SPINLOCK_LOOP_VALUE=1"]
REPO_LIB_SOURCES = ["qsbr.cpp", "qsbr_ptr.cpp", "art_internal.cpp"]


def log(*a):
    print(*a, file=sys.stderr, flush=True)


_repo_digest = None


def repo_digest():
    """sha256 over every top-level source file of the repository working tree"""
    global _repo_digest
    if _repo_digest is None:
        h = hashlib.sha256()
        files = sorted(glob.glob(os.path.join(REPO, "*.hpp")) + glob.glob(os.path.join(REPO, "*.cpp")))
        for f in files:
            h.update(os.path.basename(f).encode())
            with open(f, "rb") as fh:
                h.update(fh.read())
        _repo_digest = h.hexdigest()[:16]
    return _repo_digest


def _digest_files(paths):
    h = hashlib.sha256()
    for p in paths:
        with open(p, "rb") as fh:
            h.update(fh.read())
    return h.hexdigest()[:12]


def engine_headers():
    return sorted(glob.glob(os.path.join(VERIF, "engines", "*", "*.hpp")))


def build(name, sources, flags, compiler="g++", repo_sources=REPO_LIB_SOURCES, include_first=None, config=None):
    """Compile `sources` (paths under /verif) plus the repository's library
    sources into an executable.  The output path is keyed by the repository
    content, the engine sources and the flags; nothing is reused across
    different trees."""
    srcs = [os.path.join(VERIF, s) for s in sources]
    flags = (CONFIG_DEFAULT if config is None else list(config)) + list(flags)
    key = _digest_files(srcs + engine_headers()) + hashlib.sha256(
        (" ".join(flags) + compiler + str(include_first)).encode()).hexdigest()[:8]
    outdir = os.path.join(BUILD, repo_digest())
    os.makedirs(outdir, exist_ok=True)
    out = os.path.join(outdir, "%s-%s" % (name, key))
    if os.path.exists(out):
        return out
    lock = open(out + ".lock", "w")
    fcntl.flock(lock, fcntl.LOCK_EX)
    try:
        if os.path.exists(out):
            return out
        inc = []
        if include_first:
            inc = ["-I" + include_first]
        cmd = [compiler] + inc + BASE_FLAGS + flags + srcs + [os.path.join(REPO, s) for s in repo_sources] + ["-o", out + ".tmp"]
        t0 = time.time()
        r = subprocess.run(cmd, capture_output=True, text=True)
        if r.returncode != 0:
            log("BUILD FAILED:", " ".join(cmd))
            log(r.stderr[-4000:])
            raise SystemExit(3)
        os.rename(out + ".tmp", out)
        log("built %s in %.1fs" % (os.path.basename(out), time.time() - t0))
        return out
    finally:
        fcntl.flock(lock, fcntl.LOCK_UN)
        lock.close()


def build_many(specs):
    """specs: list of kwargs for build(); built in parallel; returns paths"""
    with concurrent.futures.ThreadPoolExecutor(max_workers=min(len(specs), NPROC) or 1) as ex:
        futs = [ex.submit(build, **s) for s in specs]
        return [f.result() for f in futs]


def run_jobs(jobs, nproc=None, deadline=None):
    """jobs: list of dict(cmd=[...], env={}, tag=any, timeout=s).  Runs them
    with at most nproc in parallel, in order.  Returns list of
    (job, returncode, stdout, stderr) in job order; jobs not started because
    the deadline passed get returncode None."""
    nproc = nproc or NPROC
    results = [None] * len(jobs)

    def one(i):
        j = jobs[i]
        if deadline is not None and time.time() > deadline:
            return (j, None, "", "skipped: deadline")
        env = dict(os.environ)
        env.update(j.get("env", {}))
        try:
            r = subprocess.run(j["cmd"], capture_output=True, text=True, env=env, timeout=j.get("timeout"))
            return (j, r.returncode, r.stdout, r.stderr)
        except subprocess.TimeoutExpired as e:
            return (j, "timeout", e.stdout or "", e.stderr or "")

    with concurrent.futures.ThreadPoolExecutor(max_workers=nproc) as ex:
        for i, res in zip(range(len(jobs)), ex.map(one, range(len(jobs)))):
            results[i] = res
    return results


# ---------------------------------------------------------------------------
def load_known_findings():
    path = os.path.join(VERIF, "known_findings.jsonl")
    out = []
    if os.path.exists(path):
        for line in open(path):
            line = line.strip()
            if line and not line.startswith("#"):
                out.append(json.loads(line))
    return out


def match_known(prop, signature, findings):
    """an open finding suppresses exactly the violations whose property and
    signature it lists"""
    for f in findings:
        if f.get("status") == "open" and f.get("property") == prop and signature in f.get("signatures", []):
            return f
    return None


def write_replay(prop, name, payload):
    os.makedirs(os.path.join(VERIF, "replays"), exist_ok=True)
    h = hashlib.sha256(json.dumps(payload, sort_keys=True).encode()).hexdigest()[:10]
    safe = "".join(c if c.isalnum() or c in "-_." else "_" for c in name)[:80]
    path = os.path.join(VERIF, "replays", "%s-%s-%s.json" % (prop, safe, h))
    with open(path, "w") as fh:
        json.dump(payload, fh, indent=1, sort_keys=True)
    return path


def write_evidence(prop, tier, level, coverage, wall_s, violations, assumptions, seed=0):
    os.makedirs(os.path.join(VERIF, "evidence"), exist_ok=True)
    ev = dict(property_id=prop, tier=tier, seed=seed, level=level, coverage=coverage,
              assumptions=assumptions, wall_s=round(wall_s, 2), violations=violations)
    path = os.path.join(VERIF, "evidence", prop + ".json")
    tmp = path + ".tmp"
    with open(tmp, "w") as fh:
        json.dump(ev, fh, indent=1)
    os.rename(tmp, path)
    return path


class Report:
    """collects violations / known findings of one check run and produces the
    exit status and the VIOLATION / KNOWN-FINDING lines"""

    def __init__(self, prop):
        self.prop = prop
        self.findings = load_known_findings()
        self.violations = []   # (prop, replay path, what)
        self.known = {}        # finding id -> text
        self.infra_errors = []

    def violation(self, prop, signature, what, replay_payload, name):
        f = match_known(prop, signature, self.findings)
        if f is not None:
            self.known[f["id"]] = "KNOWN-FINDING: property=%s %s" % (prop, f["what"])
            return False
        path = write_replay(prop, name, replay_payload)
        self.violations.append((prop, path, what))
        return True

    def finish(self):
        for line in sorted(self.known.values()):
            print(line)
        seen = set()
        for prop, path, what in self.violations:
            if (prop, path) in seen:
                continue
            seen.add((prop, path))
            print("VIOLATION property=%s replay=%s" % (prop, path))
            log("  ", what[:600])
        for e in self.infra_errors:
            log("INFRASTRUCTURE ERROR:", e)
        sys.stdout.flush()
        if self.violations:
            return 1
        if self.infra_errors:
            return 3
        return 0
