"""Driver for runners that follow engines/RUNNER_PROTOCOL.md (engines C, wrap,
seqmc): run the runner(s), confirm every violation by replaying it twice, write
the evidence from the runner's measured counts."""
import json
import os
import shutil
import tempfile
import time

from vlib import BUILD, Report, log, run_jobs, write_evidence


def run_protocol_check(prop, tier, runs, rule_prefix, assumptions, level="model_checking", engine="enum",
                       extra_cov=None):
    """runs: list of dict(binary=path, args=[...], label=str, env={}).  Each run
    gets --out; results are summed."""
    t0 = time.time()
    tmpdir = tempfile.mkdtemp(prefix="verif-s-", dir=BUILD)
    report = Report(prop)
    jobs = []
    for i, r in enumerate(runs):
        out = os.path.join(tmpdir, "%d.json" % i)
        jobs.append(dict(cmd=[r["binary"]] + r["args"] + ["--out", out], env=r.get("env", {}), out=out, run=r,
                         timeout=r.get("timeout", 7200)))
    results = run_jobs(jobs, nproc=runs[0].get("parallel", 1) if runs else 1)
    tot = dict(evaluations=0, distinct_nontrivial=0, states=0, transitions=0, traces=0)
    exhaustive = True
    samples, parts, rules = [], [], []
    for (j, rc, so, se) in results:
        r = j["run"]
        if rc != 0 or not os.path.exists(j["out"]):
            report.infra_errors.append("%s: runner ended with %r: %s" % (r["label"], rc, (se or "")[-800:]))
            exhaustive = False
            continue
        res = json.load(open(j["out"]))
        for k, src in (("evaluations", "evaluations"), ("distinct_nontrivial", "distinct_nontrivial"), ("states", "states"),
                       ("transitions", "transitions"), ("traces", "traces_validated_against_impl")):
            tot[k] += int(res.get(src, 0))
        exhaustive = exhaustive and bool(res.get("exhaustive", False))
        for s in res.get("samples", [])[:3]:
            if len(samples) < 6:
                samples.append(dict(run=r["label"], case=s))
        for p in res.get("parts", []):
            p = dict(p)
            p["run"] = r["label"]
            parts.append(p)
        if res.get("rule") and res["rule"] not in rules:
            rules.append(res["rule"])
        seen = set()
        for v in res.get("violations", []):
            sig = v.get("signature", "?")
            if sig in seen:
                continue
            seen.add(sig)
            vprop = v.get("property", prop)
            # confirm by two fresh replays
            ok = True
            for k in range(2):
                out2 = os.path.join(tmpdir, "replay.json")
                (jj, rc2, so2, se2), = run_jobs([dict(cmd=[r["binary"]] + r.get("replay_args", r["args"]) +
                                                     ["--replay-arg", v["replay_arg"], "--out", out2], env=r.get("env", {}),
                                                     timeout=600)], nproc=1)
                if rc2 != 0 or not os.path.exists(out2):
                    ok = False
                    break
                res2 = json.load(open(out2))
                os.remove(out2)
                if not any(x.get("signature") == sig for x in res2.get("violations", [])):
                    ok = False
                    break
            if not ok:
                report.infra_errors.append("%s: violation %s did not reproduce on replay (%s)" % (r["label"], sig, v.get("what", "")[:200]))
                continue
            payload = dict(engine=engine, run=r["label"], runner_source=r.get("source"), build=r.get("build"),
                           args=r.get("replay_args", r["args"]), replay_arg=v["replay_arg"], property=vprop, signature=sig,
                           what=v.get("what"), detail=v.get("detail"))
            report.violation(vprop, sig, v.get("what", ""), payload, r["label"] + "-" + sig)
    shutil.rmtree(tmpdir, ignore_errors=True)
    wall = time.time() - t0
    if not samples:
        samples = ["(no samples produced)"]
    coverage = dict(states=max(tot["states"], 1), transitions=max(tot["transitions"], 1),
                    traces_validated_against_impl=tot["traces"], evaluations=max(tot["evaluations"], 1),
                    distinct_nontrivial=tot["distinct_nontrivial"],
                    rule=rule_prefix + " " + " | ".join(rules), samples=samples, exhaustive=exhaustive and not report.infra_errors,
                    parts=parts)
    if extra_cov:
        coverage.update(extra_cov)
    nviol = len(report.violations)
    write_evidence(prop, tier, level, coverage, wall, nviol, assumptions)
    log("%s %s: %d evaluations, %d states, %.1fs, %d violation(s), exhaustive=%s" %
        (prop, tier, tot["evaluations"], tot["states"], wall, nviol, coverage["exhaustive"]))
    return report.finish()
