"""Driver for runners that follow engines/RUNNER_PROTOCOL.md (engines C, wrap,
seqmc): run the runner(s), confirm every violation by replaying it twice, write
the evidence from the runner's measured counts."""
import json
import os
import shutil
import tempfile
import time

from vlib import BUILD, Report, log, run_jobs, write_evidence


def run_protocol_check(prop, tier, runs, rule_prefix, assumptions, level="model_checking", engine="enum",
                       extra_cov=None, post=None, sum_keys=("scans", "fault_runs", "allocating_transitions", "reference_states"),
                       finish=True):
    """runs: list of dict(binary=path, args=[...], label=str, env={}).  Each run
    gets --out; results are summed."""
    t0 = time.time()
    tmpdir = tempfile.mkdtemp(prefix="verif-s-", dir=BUILD)
    report = Report(prop)
    jobs = []
    for i, r in enumerate(runs):
        out = os.path.join(tmpdir, "%d.json" % i)
        prog = os.path.join(tmpdir, "%d.prog" % i)
        cmd = [r["binary"]] + r["args"] + ["--out", out]
        if r.get("crash_property"):
            cmd += ["--progress", prog]
        jobs.append(dict(cmd=cmd, env=r.get("env", {}), out=out, prog=prog, run=r, timeout=r.get("timeout", 7200)))
    results = run_jobs(jobs, nproc=runs[0].get("parallel", 1) if runs else 1)
    tot = dict(evaluations=0, distinct_nontrivial=0, states=0, transitions=0, traces=0)
    exhaustive = True
    all_results, extra_sums = {}, {}
    samples, parts, rules = [], [], []
    for (j, rc, so, se) in results:
        r = j["run"]
        if rc != 0 or not os.path.exists(j["out"]):
            exhaustive = False
            crash = r.get("crash_property")
            hist = None
            if crash and os.path.exists(j["prog"]):
                hist = open(j["prog"], "rb").read().split(b"\0")[0].decode(errors="replace")
            vprop = None
            if crash and hist:
                try:
                    vprop = crash(rc, se or "", hist)
                except TypeError:
                    vprop = crash(rc, se or "")
            if vprop is None:
                report.infra_errors.append("%s: runner ended with %r: %s" % (r["label"], rc, (se or "")[-800:]))
                continue
            # a crash is believed only if replaying the recorded history crashes the same way twice
            ok = True
            for k in range(2):
                (jj, rc2, so2, se2), = run_jobs([dict(cmd=[r["binary"]] + r["args"] + ["--replay-arg", hist, "--out", os.path.join(tmpdir, "rp.json")],
                                                     env=r.get("env", {}), timeout=600)], nproc=1)
                if rc2 != rc:
                    ok = False
            if not ok:
                report.infra_errors.append("%s: crash (status %r) after history [%s] did not reproduce on replay: %s" % (r["label"], rc, hist, (se or "")[-400:]))
                continue
            sig = "%s/crash-%s" % (vprop, rc)
            what = "runner ended with status %r while executing history [%s]: %s" % (rc, hist, (se or "")[-600:].replace("\n", " | "))
            payload = dict(engine=engine, run=r["label"], runner_source=r.get("source"), build_spec=r.get("build_spec"),
                           args=r["args"], replay_arg=hist, property=vprop, signature=sig, what=what, exit_status=rc)
            report.violation(vprop, sig, what, payload, r["label"] + "-crash")
            continue
        res = json.load(open(j["out"]))
        all_results[r["label"]] = res
        for k in sum_keys:
            if k in res:
                extra_sums[k] = extra_sums.get(k, 0) + int(res[k])
        for k, src in (("evaluations", "evaluations"), ("distinct_nontrivial", "distinct_nontrivial"), ("states", "states"),
                       ("transitions", "transitions"), ("traces", "traces_validated_against_impl")):
            tot[k] += int(res.get(src, 0))
        if not r.get("signature_suffix"):  # known-finding universes stop at their first violations by design
            exhaustive = exhaustive and bool(res.get("exhaustive", False))
        for s in res.get("samples", [])[:3]:
            if len(samples) < 6:
                samples.append(dict(run=r["label"], case=s))
        for p in res.get("parts", []):
            p = dict(p)
            p["run"] = r["label"]
            parts.append(p)
        if res.get("rule") and res["rule"] not in rules:
            rules.append(res["rule"])
        seen = set()
        for v in res.get("violations", []):
            sig = v.get("signature", "?")
            if sig in seen:
                continue
            seen.add(sig)
            rsig = sig + r.get("signature_suffix", "")
            vprop = r.get("property_override") or v.get("property", prop)
            # confirm by two fresh replays
            ok = True
            for k in range(2):
                out2 = os.path.join(tmpdir, "replay.json")
                (jj, rc2, so2, se2), = run_jobs([dict(cmd=[r["binary"]] + r.get("replay_args", r["args"]) +
                                                     ["--replay-arg", v["replay_arg"], "--out", out2], env=r.get("env", {}),
                                                     timeout=600)], nproc=1)
                if rc2 != 0 or not os.path.exists(out2):
                    ok = False
                    break
                res2 = json.load(open(out2))
                os.remove(out2)
                same = any(x.get("signature") == sig for x in res2.get("violations", []))
                # a contained crash of the code under test (memory corruption) may come back as garbage output instead
                if not same and not (sig.endswith("/crash") and res2.get("violations")):
                    ok = False
                    break
            if not ok:
                report.infra_errors.append("%s: violation %s did not reproduce on replay (%s)" % (r["label"], sig, v.get("what", "")[:200]))
                continue
            payload = dict(engine=engine, run=r["label"], runner_source=r.get("source"), build=r.get("build"),
                           build_spec=r.get("build_spec"),
                           args=r.get("replay_args", r["args"]), replay_arg=v["replay_arg"], property=vprop, signature=rsig,
                           what=v.get("what"), detail=v.get("detail"))
            report.violation(vprop, rsig, v.get("what", ""), payload, r["label"] + "-" + sig)
    if post:
        post(all_results, report)
    shutil.rmtree(tmpdir, ignore_errors=True)
    wall = time.time() - t0
    if not samples:
        samples = ["(no samples produced)"]
    coverage = dict(states=max(tot["states"], 1), transitions=max(tot["transitions"], 1),
                    traces_validated_against_impl=tot["traces"], evaluations=max(tot["evaluations"], 1),
                    distinct_nontrivial=tot["distinct_nontrivial"],
                    rule=rule_prefix + " " + " | ".join(rules), samples=samples, exhaustive=exhaustive and not report.infra_errors,
                    parts=parts)
    coverage.update(extra_sums)
    if extra_cov:
        coverage.update(extra_cov() if callable(extra_cov) else extra_cov)
    nviol = len(report.violations)
    log("%s %s: %d evaluations, %d states, %.1fs, %d violation(s), exhaustive=%s" %
        (prop, tier, tot["evaluations"], tot["states"], wall, nviol, coverage["exhaustive"]))
    if not finish:
        return report, coverage, assumptions
    write_evidence(prop, tier, level, coverage, wall, nviol, assumptions)
    return report.finish()
