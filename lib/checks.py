"""Registry of checks: property id -> function(tier, args) -> exit status."""
import json
import os
import subprocess
import sys

import engine_a
import engine_simple
import scenarios
from vlib import VERIF, build, log

CHECKS = {}


def check(prop):
    def deco(fn):
        CHECKS[prop] = fn
        return fn
    return deco


def _filter(scs, args):
    if args.only:
        scs = [s for s in scs if args.only in s["id"]]
    return scs


def _deadline(args, quick, thorough, tier):
    if args.deadline:
        return args.deadline
    return quick if tier == "quick" else thorough


@check("C03")
def c03(tier, args):
    scs = _filter(scenarios.c03(tier), args)
    return engine_a.run_scenarios("C03", tier, scs, _deadline(args, 600, 3000, tier))


@check("C04")
def c04(tier, args):
    scs = _filter(scenarios.c04(tier), args)
    return engine_a.run_scenarios("C04", tier, scs, _deadline(args, 600, 3000, tier))


@check("C09")
def c09(tier, args):
    scs = _filter(scenarios.c09(tier), args)
    return engine_a.run_scenarios("C09", tier, scs, _deadline(args, 600, 3000, tier))


@check("C14")
def c14(tier, args):
    scs = _filter(scenarios.c14(tier), args)
    return engine_a.run_scenarios("C14", tier, scs, _deadline(args, 600, 3000, tier))


QSBR_RULE = ("every schedule of each program set (2-4 real threads driving the real QSBR through quiescent / retire / "
             "allocate / pause / resume / exit / start) with at most `bound` scheduling deviations (preemptions; for the "
             "4-thread role family every deviation from round-robin at a switch point counts too), every QSBR atomic a "
             "scheduling point, each followed by a deterministic drain; non-trivial = distinct event logs in which memory "
             "was freed while another thread was registered")
QSBR_ASSUMPTIONS = [
    "sequentially consistent interleavings only; compare_exchange_weak treated as strong (x86)",
    "2-4 threads, programs of at most 3 operations (role family: up to 4); bounds as reported",
    "the may-hold oracle is the QSBR contract: a thread may hold every object that was published at a moment at which it "
    "was registered (by completed calls) since its latest invocation of quiescent/pause/exit",
    "replay determinism: every violation re-executed twice from its schedule before being reported",
]


@check("C05")
def c05(tier, args):
    scs = _filter(scenarios.qsbr("C05", tier), args)
    return engine_a.run_scenarios("C05", tier, scs, _deadline(args, 600, 3000, tier), rule=QSBR_RULE,
                                  assumptions=QSBR_ASSUMPTIONS)


@check("C06")
def c06(tier, args):
    scs = _filter(scenarios.qsbr("C06", tier), args)
    return engine_a.run_scenarios("C06", tier, scs, _deadline(args, 600, 3000, tier), rule=QSBR_RULE,
                                  assumptions=QSBR_ASSUMPTIONS)


# ---------------------------------------------------------------------------
# engine C: exhaustive enumeration of the key codec domains
def codec_binary():
    return build("codec", ["engines/enum/codec.cpp"], ["-O2"], repo_sources=[])


def _codec(prop, tier):
    b = codec_binary()
    # the full 2^32 successor chains take ~10 s each on 16 cores, so both
    # tiers walk the complete domains ("thorough" in the runner's terms)
    args = ["--property", prop, "--tier", "thorough", "--threads", "16"]
    return engine_simple.run_protocol_check(
        prop, tier, [dict(binary=b, args=args, label="codec-" + prop, source="engines/enum/codec.cpp",
                          build="g++ -std=c++20 -O2 -mavx2 -I/repo codec.cpp")],
        "exhaustive enumeration of finite encoder/decoder input domains against independently written reference orders:",
        ["64-bit integers, doubles, long texts and tuples are covered on the stated structured finite domains only",
         "texts contain no interior zero bytes (excluded by the statement)",
         "the reference orders (integer <, IEEE total order with NaNs unified, bytewise text order after normalisation) are trusted"],
        engine="enum")


@check("C11")
def c11(tier, args):
    return _codec("C11", tier)


@check("C12")
def c12(tier, args):
    return _codec("C12", tier)


@check("C15")
def c15(tier, args):
    return _codec("C15", tier)


def setup():
    """build every runner once for the current tree (content-keyed cache)"""
    engine_a.olc_binary(True)
    engine_a.qsbr_binary(True)
    codec_binary()
    return 0


def replay(path):
    payload = json.load(open(path))
    eng = payload.get("engine", "")
    if eng in ("sched/olc", "sched/qsbr"):
        import tempfile
        binary = engine_a.binary_for(payload["scenario"])
        tmp = tempfile.mkdtemp(prefix="verif-replay-")
        rc, res, se = engine_a.replay_once(binary, payload["scenario"], payload["choices"], tmp, "r")
        print("exit status:", rc)
        print(se[-3000:])
        if res is not None:
            for v in res["violations"]:
                print("VIOLATION property=%s replay=%s" % (v["property"], path))
                print("  ", v["what"])
            return 1 if res["violations"] else 0
        return 1 if rc in (40, 41, 43, 44) or (isinstance(rc, int) and rc < 0) else 3
    if eng in ("enum", "wrap", "seqmc"):
        b = build(**payload["build_spec"]) if "build_spec" in payload else codec_binary()
        r = subprocess.run([b] + payload["args"] + ["--replay-arg", payload["replay_arg"], "--out", "/dev/stdout"],
                           capture_output=True, text=True)
        print(r.stdout[-4000:])
        try:
            res = json.loads(r.stdout)
        except ValueError:
            return 3
        for v in res.get("violations", []):
            print("VIOLATION property=%s replay=%s" % (v.get("property", payload["property"]), path))
        return 1 if res.get("violations") else 0
    log("unknown engine in replay file:", eng)
    return 3
