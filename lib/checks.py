"""Registry of checks: property id -> function(tier, args) -> exit status."""
import json
import os
import subprocess
import sys

import engine_a
import scenarios
from vlib import VERIF, log

CHECKS = {}


def check(prop):
    def deco(fn):
        CHECKS[prop] = fn
        return fn
    return deco


def _filter(scs, args):
    if args.only:
        scs = [s for s in scs if args.only in s["id"]]
    return scs


def _deadline(args, quick, thorough, tier):
    if args.deadline:
        return args.deadline
    return quick if tier == "quick" else thorough


@check("C03")
def c03(tier, args):
    scs = _filter(scenarios.c03(tier), args)
    return engine_a.run_scenarios("C03", tier, scs, _deadline(args, 600, 3000, tier))


@check("C04")
def c04(tier, args):
    scs = _filter(scenarios.c04(tier), args)
    return engine_a.run_scenarios("C04", tier, scs, _deadline(args, 600, 3000, tier))


@check("C09")
def c09(tier, args):
    scs = _filter(scenarios.c09(tier), args)
    return engine_a.run_scenarios("C09", tier, scs, _deadline(args, 600, 3000, tier))


@check("C14")
def c14(tier, args):
    scs = _filter(scenarios.c14(tier), args)
    return engine_a.run_scenarios("C14", tier, scs, _deadline(args, 600, 3000, tier))


def setup():
    """build every runner once for the current tree (content-keyed cache)"""
    engine_a.olc_binary(True)
    return 0


def replay(path):
    payload = json.load(open(path))
    eng = payload.get("engine", "")
    if eng == "sched/olc":
        import tempfile
        binary = engine_a.olc_binary(True)
        tmp = tempfile.mkdtemp(prefix="verif-replay-")
        rc, res, se = engine_a.replay_once(binary, payload["scenario"], payload["choices"], tmp, "r")
        print("exit status:", rc)
        print(se[-3000:])
        if res is not None:
            for v in res["violations"]:
                print("VIOLATION property=%s replay=%s" % (v["property"], path))
                print("  ", v["what"])
            return 1 if res["violations"] else 0
        return 1 if rc in (40, 41, 43, 44) or (isinstance(rc, int) and rc < 0) else 3
    log("unknown engine in replay file:", eng)
    return 3
