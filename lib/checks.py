"""Registry of checks: property id -> function(tier, args) -> exit status."""
import json
import os
import subprocess
import sys

import engine_a
import engine_b
import engine_simple
import scenarios
from vlib import HOOK_GUARD, VERIF, build, log

CHECKS = {}


def check(prop):
    def deco(fn):
        CHECKS[prop] = fn
        return fn
    return deco


def _filter(scs, args):
    if args.only:
        scs = [s for s in scs if args.only in s["id"]]
    return scs


def _deadline(args, quick, thorough, tier):
    if args.deadline:
        return args.deadline
    return quick if tier == "quick" else thorough


@check("C03")
def c03(tier, args):
    scs = _filter(scenarios.c03(tier), args)
    return engine_a.run_scenarios("C03", tier, scs, _deadline(args, 900, 6000, tier))


@check("C04")
def c04(tier, args):
    scs = _filter(scenarios.c04(tier), args)
    return engine_a.run_scenarios("C04", tier, scs, _deadline(args, 900, 6000, tier))


@check("C09")
def c09(tier, args):
    scs = _filter(scenarios.c09(tier), args)
    return engine_a.run_scenarios("C09", tier, scs, _deadline(args, 900, 6000, tier))


@check("C14")
def c14(tier, args):
    import time as _time
    t0 = _time.time()
    scs = _filter(scenarios.c14(tier), args)
    parts, labels = [], []
    if scs:
        parts.append(engine_a.run_scenarios("C14", tier, scs, _deadline(args, 900, 6000, tier), finish=False))
        labels.append("sched")
    # "additionally every allocation-failure point of C08 on the OLC index": after every faulted operation of every reachable
    # state the sweep must terminate and no lock word may be left set (engine B, fault mode, olc_db only)
    us = [u for u in engine_b.all_universes(tier) if not args.only or args.only in u["id"]]
    if tier == "quick":
        us = [u for u in us if u["id"] in C08_QUICK_UNIVERSES]
    if us:
        parts.append(_seqmc("C14", tier, "dbg", ["--scans", "0", "--views", "0", "--faults", "1"], us, indexes=("olc",),
                            assertions=True, finish=False))
        labels.append("seqmc: every allocation-failure point of every operation in every reachable state, olc_db")
    return merge_and_finish("C14", tier, t0, parts, labels)


# the universes that contain every allocation pattern (leaf, leaf + I4, leaf + larger node, smaller node on shrink)
C08_QUICK_UNIVERSES = {"g2-two-level", "g1-i4-i16", "g3-prefix-split", "g4-leaf-split", "g1-i16-i48", "g1-i48-i256", "kv3-two-level",
                       "kv-text", "kv-compound"}


QSBR_RULE = ("every schedule of each program set (2-4 real threads driving the real QSBR through quiescent / retire / "
             "allocate / pause / resume / exit / start) with at most `bound` scheduling deviations (preemptions; for the "
             "4-thread role family every deviation from round-robin at a switch point counts too), every QSBR atomic a "
             "scheduling point, each followed by a deterministic drain; non-trivial = distinct event logs in which memory "
             "was freed while another thread was registered")
QSBR_ASSUMPTIONS = [
    "sequentially consistent interleavings only; compare_exchange_weak treated as strong (x86)",
    "2-4 threads, programs of at most 3 operations (role family: up to 4); bounds as reported",
    "the may-hold oracle is the QSBR contract: a thread may hold every object that was published at a moment at which it "
    "was registered (by completed calls) since its latest invocation of quiescent/pause/exit",
    "replay determinism: every violation re-executed twice from its schedule before being reported",
]


@check("C05")
def c05(tier, args):
    scs = _filter(scenarios.qsbr("C05", tier), args)
    return engine_a.run_scenarios("C05", tier, scs, _deadline(args, 900, 6000, tier), rule=QSBR_RULE,
                                  assumptions=QSBR_ASSUMPTIONS)


@check("C06")
def c06(tier, args):
    scs = _filter(scenarios.qsbr("C06", tier), args)
    return engine_a.run_scenarios("C06", tier, scs, _deadline(args, 900, 6000, tier), rule=QSBR_RULE,
                                  assumptions=QSBR_ASSUMPTIONS)


@check("C07")
def c07(tier, args):
    scs = _filter(scenarios.lock(tier), args)
    return engine_a.run_scenarios(
        "C07", tier, scs, _deadline(args, 900, 6000, tier),
        rule="every interleaving (every atomic access of optimistic_lock and of the protected words a scheduling point) of 2 "
             "threads running one or two lock programs each (read section with and without intermediate check, write, "
             "write-and-obsolete, read-then-upgrade, rehydrate) on ONE real lock guarding two words: unbounded search made finite "
             "by state fingerprints (closure mode); 3 threads: bound 3 (quick) / closure mode (thorough); non-trivial = distinct "
             "event logs in which a read section overlapped a writer",
        assumptions=["sequentially consistent interleavings (the statement says so); the acquire-fence argument is not model-checked",
                     "closure mode: two executions with equal fingerprints (lock word, protected words, monitor state, per-thread "
                     "declared position/saved version/values read, observations since the declaration, scheduler bookkeeping) have "
                     "equal futures; 64-bit hash collisions are neglected",
                     "monitors: open/dirty flags per thread, active-writer count, obsolete flag sampled at call invocation"])


@check("C13")
def c13(tier, args):
    scs = _filter(scenarios.mutex(tier), args)
    return engine_a.run_scenarios(
        "C13", tier, scs, _deadline(args, 900, 6000, tier),
        rule="every interleaving, without bound, of 2-3 plain threads running programs over {get, get-and-hold-the-handle, insert, "
             "remove, empty, clear, scan, scan_from, scan_range} on the real mutex_db; the scheduling points are the acquisition and release of the "
             "index mutex (pthread_mutex_lock/unlock defined in the runner), a requester of a held mutex is disabled until its "
             "release; non-trivial = distinct result histories in which operations of two threads overlapped",
        assumptions=["the unsynchronised db underneath has no scheduling points: a missing lock cannot show as a wrong result under "
                     "a serialising scheduler, it is caught by the monitors 'each public call acquires the mutex exactly once' and "
                     "'no allocation or free without holding the mutex'",
                     "uint64 keys {1, 2}; programs of at most 3 operations; no sanitizer in this runner"])


# ---------------------------------------------------------------------------
# engine B: explicit-state search over the real index
def seqmc_crash(assertions):
    def f(rc, se, hist=""):
        if " FAULT " in hist:
            # the process died while an injected allocation failure was being handled: the exception did not reach the caller
            return "C08"
        if rc == 45:
            return "C14"
        if rc == 43 or rc == -11 or rc == -7 or rc == -4:
            # died inside the scan enumeration of an announced state: the scan contract; otherwise the point operations
            return "C02" if " SCAN" in hist else "C01"
        if rc == -6 or rc == 134:
            return "C16" if assertions else "C01"
        return None
    return f


def merge_and_finish(prop, tier, t0, parts, labels):
    """parts: list of (report, coverage, assumptions) from engine runs with finish=False"""
    import time as _time
    from vlib import write_evidence
    rep, cov, ass = parts[0][0], dict(parts[0][1]), list(parts[0][2])
    cov["parts_by_engine"] = {labels[0]: {k: parts[0][1].get(k) for k in ("states", "transitions", "evaluations", "exhaustive")}}
    for (r, c, a), lab in zip(parts[1:], labels[1:]):
        for k in ("states", "transitions", "traces_validated_against_impl", "evaluations", "distinct_nontrivial"):
            cov[k] = cov.get(k, 0) + c.get(k, 0)
        cov["samples"] = cov["samples"][:4] + c["samples"][:2]
        cov["exhaustive"] = bool(cov["exhaustive"] and c["exhaustive"])
        cov["rule"] = cov["rule"] + " || plus (" + lab + ") " + c["rule"]
        cov["parts_by_engine"][lab] = {k: c.get(k) for k in ("states", "transitions", "evaluations", "exhaustive", "scenarios",
                                                              "scenarios_completed", "executions_by_preemptions", "distinct_outcomes")}
        rep.violations += r.violations
        rep.infra_errors += r.infra_errors
        rep.known.update(r.known)
        ass += [x for x in a if x not in ass]
    write_evidence(prop, tier, "model_checking", cov, _time.time() - t0, len(rep.violations), ass)
    return rep.finish()


SEQMC_ASSUMPTIONS = [
    "behaviour of a call is a function of the physical tree dump and the arguments (deterministic code); lock version numbers, "
    "stale array entries beyond the child count, statistics and the QSBR epoch are excluded from the state identity",
    "universes are finite and hand-designed to force every structural case; keys longer than 12 bytes (40 thorough), memory "
    "exhaustion and concurrent use are outside this check",
    "byte-string universes are prefix-free (fixed length or built with one encoder schema)",
]
SEQMC_RULE = "closure under arbitrary finite operation sequences per universe (state graph fixpoint):"


def _seqmc(prop, tier, variant, extra, us, deep_us=(), indexes=engine_b.INDEXES, assertions=False, label="", extra_runs=(),
           finish=True):
    bins = engine_b.binaries(variant)
    runs = engine_b.runs_for(us, bins, extra, variant, indexes)
    for r in runs:
        r["crash_property"] = seqmc_crash(assertions)
    if deep_us:
        druns = engine_b.runs_for(list(deep_us), bins, extra, variant, indexes)
        for r in druns:
            r["crash_property"] = seqmc_crash(assertions)
            r["signature_suffix"] = "@deep-shared-prefix"
        runs += druns
    runs += list(extra_runs)
    return engine_simple.run_protocol_check(prop, tier, runs, SEQMC_RULE, SEQMC_ASSUMPTIONS, engine="seqmc", finish=finish,
                                            extra_cov=dict(universes=[u["id"] for u in us] + [u["id"] for u in deep_us],
                                                           index_classes=list(indexes), build_variant=variant))


@check("C01")
def c01(tier, args):
    us = engine_b.all_universes(tier)
    deep = engine_b.all_universes(tier, deep=True)
    if args.only:
        us = [u for u in us if args.only in u["id"]]
        deep = [u for u in deep if args.only in u["id"]]
    import time as _time
    t0 = _time.time()
    part_b = _seqmc("C01", tier, "asan", ["--scans", "1"], us, deep, finish=False) if (us or deep) else None
    # the OLC clause about views ("at least until the caller's next quiescent state") needs a second registered thread, or
    # reclamation is immediate by design: sequential programs of one worker next to an idle registered thread, engine A.
    # In this family a view that changes or is freed before the worker's quiescent state IS that clause, so the runner's
    # C04 verdicts are reported under C01.
    scs = _filter(scenarios.c01_views(tier), args)
    if not scs:
        return merge_and_finish("C01", tier, t0, [part_b], ["seqmc"])
    part_a = engine_a.run_scenarios("C01", tier, scs, _deadline(args, 300, 900, tier), finish=False, report_as={"C04": "C01"})
    lab = "sched: one worker holding value views across its own removals / restructurings, next to an idle registered thread"
    if part_b is None:
        return merge_and_finish("C01", tier, t0, [part_a], [lab])
    return merge_and_finish("C01", tier, t0, [part_b, part_a], ["seqmc", lab])


@check("C02")
def c02(tier, args):
    us = engine_b.all_universes(tier)
    if args.only:
        us = [u for u in us if args.only in u["id"]]
    return _seqmc("C02", tier, "fast", ["--scans", "2", "--views", "0"], us)


@check("C08")
def c08(tier, args):
    us = engine_b.all_universes(tier)
    if args.only:
        us = [u for u in us if args.only in u["id"]]
    if tier == "quick":
        us = [u for u in us if u["id"] in C08_QUICK_UNIVERSES]
    extra = [dict(binary=build(**QSBR_FAULT_SPEC), args=["--tier", tier], label="qsbr-fault-and-length-limits", build_spec=QSBR_FAULT_SPEC,
                  source="engines/seqmc/qsbr_fault.cpp", parallel=16)]
    return _seqmc("C08", tier, "dbg", ["--scans", "0", "--views", "0", "--faults", "1"], us, assertions=True, extra_runs=extra)


QSBR_FAULT_SPEC = dict(name="qsbr_fault", sources=["engines/seqmc/qsbr_fault.cpp"], flags=["-O1", "-D" + HOOK_GUARD])

# ---- C16: the configuration matrix -----------------------------------------
MATRIX = [(simd, stats, asserts, spin) for simd in ("avx2", "sse41") for stats in (True, False) for asserts in (True, False)
          for spin in (1, 2)]


def matrix_label(c):
    return "%s-%s-%s-%s" % (c[0], "stats" if c[1] else "nostats", "assert" if c[2] else "ndebug", "pause" if c[3] == 1 else "empty")


def matrix_spec(c, index):
    config = ["-mavx2" if c[0] == "avx2" else "-msse4.1"] + (["-DUNODB_DETAIL_WITH_STATS"] if c[1] else []) + \
        ["-DUNODB_SPINLOCK_LOOP_VALUE=%d" % c[3]]
    flags = ["-O1", "-D" + HOOK_GUARD] + ([] if c[2] else ["-DNDEBUG"]) + [engine_b.ONLY[index]]
    return dict(name="seqmc_mx_%s_%s" % (matrix_label(c), index), sources=["engines/seqmc/seqmc.cpp"], flags=flags, config=config)


def matrix_binaries(indexes):
    from vlib import build_many
    specs = [(c, i, matrix_spec(c, i)) for c in MATRIX for i in indexes]
    paths = build_many([sp for (_, _, sp) in specs])
    return {(matrix_label(c), i): (p, sp) for (c, i, sp), p in zip(specs, paths)}


@check("C16")
def c16(tier, args):
    indexes = engine_b.INDEXES
    bins = matrix_binaries(indexes)
    keep = {"g2-two-level", "g1-i4-i16", "g3-prefix-split", "g1-i16-i48", "kv3-two-level"}
    if tier == "thorough":
        keep |= {"g1-i48-i256", "kv1-classes", "kv8-prefix-split", "g4-leaf-split", "three-level", "sparse", "g1-full-256",
                 "below-i16"}
    us = [u for u in engine_b.all_universes(tier) if u["id"] in keep]
    if tier == "quick":
        # 48 runs per universe: the quick tier uses reduced delta sets (6 keys, 5 around the I48 boundary)
        red = []
        for u in us:
            u = dict(u)
            n = 5 if len(u["base"]) >= 10 else 6
            u["delta"] = u["delta"][:n]
            u["variants"] = [v for v in u["variants"] if v < n]
            red.append(u)
        us = red
    if args.only:
        us = [u for u in us if args.only in u["id"]]
    runs = []
    for c in MATRIX:
        lab = matrix_label(c)
        for u in us:
            # the heavy scan sweep before every mutation only where the scans are cheap
            big = len(u["base"]) >= 10
            scan_before = "0" if big else "1"
            scans = "1" if (big and tier == "quick") else "2"
            for i in indexes:
                b, sp = bins[(lab, i)]
                runs.append(dict(binary=b, args=engine_b.uni_args(u, i) + ["--scans", scans, "--views", "0", "--scan-before", scan_before,
                                                                          "--transcript", "1"],
                                 label="%s/%s/%s@%s" % (u["id"], i, u["kind"], lab), env={}, parallel=16, build_spec=sp,
                                 source="engines/seqmc/seqmc.cpp", crash_property=seqmc_crash(c[2]), property_override="C16",
                                 signature_suffix="@" + lab, timeout=7200))

    disagreements = []

    def post(results, report):
        groups = {}
        for label, res in results.items():
            run_id, lab = label.split("@")
            groups.setdefault(run_id, []).append((lab, res))
        for run_id, members in sorted(groups.items()):
            ref_lab, ref = members[0]
            for lab, res in members[1:]:
                diffs = []
                if res["transcript"] != ref["transcript"]:
                    diffs.append("results/scan output")
                if res["with_stats"] and ref["with_stats"] and res["counters_transcript"] != ref["counters_transcript"]:
                    diffs.append("statistics counters")
                same_layout = res["assertions"] == ref["assertions"] and lab.split("-")[0] == ref_lab.split("-")[0]
                if res["with_stats"] and ref["with_stats"] and same_layout and res["memory_transcript"] != ref["memory_transcript"]:
                    diffs.append("reported memory use")
                if diffs:
                    disagreements.append((run_id, ref_lab, lab, diffs))
                    what = "configurations %s and %s disagree on %s for %s" % (ref_lab, lab, ", ".join(diffs), run_id)
                    report.violation("C16", "C16/transcript-mismatch", what,
                                     dict(engine="seqmc-matrix", run=run_id, configs=[ref_lab, lab], what=what,
                                          note="re-run ./check C16 --only <universe> to reproduce"), run_id + "-" + lab)
            # the reference for the stats comparison must itself have stats: compare all stats builds pairwise through the first
            st = [(l, r) for (l, r) in members if r["with_stats"]]
            for lab, res in st[1:]:
                if res["counters_transcript"] != st[0][1]["counters_transcript"]:
                    what = "configurations %s and %s disagree on statistics counters for %s" % (st[0][0], lab, run_id)
                    report.violation("C16", "C16/counters-mismatch", what,
                                     dict(engine="seqmc-matrix", run=run_id, configs=[st[0][0], lab], what=what), run_id + "-" + lab + "-st")

    import time as _time
    t0 = _time.time()
    rep_b, cov_b, ass_b = engine_simple.run_protocol_check(
        "C16", tier, runs,
        "the same deterministic state-graph search (engine B, complete scan bound set, scans also run on the object that is then "
        "mutated) in all 16 build configurations {AVX2, SSE4.1} x {stats, no stats} x {assertions, NDEBUG} x {PAUSE, EMPTY}; "
        "per-run transcripts (every result, every scan output, every shape) must be identical across the 16, counters across "
        "the 8 with statistics, every assertion-enabled process must exit normally:",
        SEQMC_ASSUMPTIONS + ["reported memory use is compared only among configurations with the same assertion setting and the "
                             "same SIMD level (assertion builds have larger nodes, AVX2 builds align inode_48 differently)"],
        engine="seqmc", post=post, finish=False,
        extra_cov=lambda: dict(configurations=[matrix_label(c) for c in MATRIX], universes=[u["id"] for u in us],
                               transcript_groups_compared=len(us) * len(indexes), disagreements=len(disagreements)))
    # assertions under concurrency: the engine-A OLC scenarios in an assertion-enabled build; a library assertion that fires
    # on valid concurrent use aborts the runner, which is attributed to the schedule being executed
    scs = scenarios.c03(tier)
    if tier == "quick":
        scs = [s for s in scs if s["base"] in ("two_level", "two_leaves", "i4_full", "i16_min", "i4_three", "three_level", "single_leaf")]
        scs = [s for i, s in enumerate(scs) if i % 3 == 0]
    scs += [s for i, s in enumerate(scenarios.c09(tier)) if i % (8 if tier == "quick" else 2) == 0]
    if args.only:
        scs = [s for s in scs if args.only in s["id"]]
    cov = dict(cov_b)
    rep = rep_b
    if scs:
        rep_a, cov_a, ass_a = engine_a.run_scenarios("C16", tier, scs, _deadline(args, 900, 6000, tier), finish=False,
                                                     binary=engine_a.olc_debug_binary(), fatal_property="C16")
        for k in ("states", "transitions", "traces_validated_against_impl", "evaluations", "distinct_nontrivial"):
            cov[k] = cov_b.get(k, 0) + cov_a.get(k, 0)
        cov["samples"] = cov_b["samples"][:4] + cov_a["samples"][:2]
        cov["exhaustive"] = bool(cov_b["exhaustive"] and cov_a["exhaustive"])
        cov["concurrent_assertion_build"] = {k: cov_a[k] for k in ("scenarios", "scenarios_completed", "executions_by_preemptions",
                                                                    "distinct_outcomes", "evaluations") if k in cov_a}
        cov["rule"] = cov_b["rule"] + " || plus " + cov_a["rule"] + " in an assertion-enabled build of the OLC runner (abort = violation)"
        rep.violations += rep_a.violations
        rep.infra_errors += rep_a.infra_errors
        rep.known.update(rep_a.known)
        ass_b = ass_b + ["concurrent part: as C03/C09 (sequentially consistent interleavings, bounds per scenario)"]
    from vlib import write_evidence
    write_evidence("C16", tier, "model_checking", cov, _time.time() - t0, len(rep.violations), ass_b)
    return rep.finish()



@check("C10")
def c10(tier, args):
    us = engine_b.all_universes(tier)
    if args.only:
        us = [u for u in us if args.only in u["id"]]
    import time as _time
    t0 = _time.time()
    part_b = _seqmc("C10", tier, "fast", ["--scans", "0", "--views", "0"], us, finish=False)
    # the concurrent clause: after a concurrent phase, once every thread has quiesced, shape / counts / memory / held bytes /
    # growth-and-shrink conservation must hold again.  Writer-writer scenarios around every grow / shrink / collapse edge.
    scs = [s for s in scenarios.c03(tier) if all(t[0][0] in "ir" for t in s["threads"][:2]) and len(s["threads"]) == 2 and
           len(s["threads"][0]) == 1]
    if tier == "quick":
        scs = [s for s in scs if s["base"] in ("two_level", "two_leaves", "i4_full", "i16_min", "i4_three", "three_level", "below_i16")]
    scs = _filter(scs, args)
    if not scs:
        return merge_and_finish("C10", tier, t0, [part_b], ["seqmc"])
    part_a = engine_a.run_scenarios("C10", tier, scs, _deadline(args, 900, 6000, tier), finish=False)
    return merge_and_finish("C10", tier, t0, [part_b, part_a], ["seqmc", "sched: writer/writer scenarios on the real olc_db"])


# ---------------------------------------------------------------------------
# wrap: explicit-state search over the real qsbr_ptr / qsbr_ptr_span
def wrap_spec(debug):
    return dict(name="wrap_" + ("debug" if debug else "ndebug"), sources=["engines/wrap/wrap.cpp"],
                flags=["-O1"] + ([] if debug else ["-DNDEBUG"]), repo_sources=["qsbr.cpp", "qsbr_ptr.cpp"])


@check("C17")
def c17(tier, args):
    dbg, ndbg = build(**wrap_spec(True)), build(**wrap_spec(False))
    # thorough: 3 pointer slots (619,000 states) in the assertion-enabled build
    uni = [] if tier == "quick" else ["--universe", "L3P3S2"]
    runs = [dict(binary=dbg, args=["--tier", "quick", "--config", "debug"] + uni, label="wrap-debug", build_spec=wrap_spec(True),
                 source="engines/wrap/wrap.cpp"),
            dict(binary=ndbg, args=["--tier", "quick", "--config", "ndebug"] + uni, label="wrap-ndebug", build_spec=wrap_spec(False),
                 source="engines/wrap/wrap.cpp")]
    return engine_simple.run_protocol_check(
        "C17", tier, runs,
        "breadth-first search to the fixpoint over abstract states of pointer/span slots holding REAL qsbr_ptr / qsbr_ptr_span "
        "objects, every transition replayed on fresh objects and compared with shadow raw pointers; liveness verdicts probed in "
        "forked children for every state:",
        ["slots: 2 pointer + 2 span (thorough: 3 + 2), two buffers of 3 elements; one-past-the-end included, nothing outside formed",
         "operations between distinct objects only (self-assignment is outside the statement)",
         "assertion-enabled build: the per-thread registry is compared with the shadow multiset after every transition and "
         "quiescent/pause/resume must abort iff it is non-empty; NDEBUG build: always accepted"],
        engine="wrap")


# ---------------------------------------------------------------------------
# engine C: exhaustive enumeration of the key codec domains
def codec_binary():
    return build("codec", ["engines/enum/codec.cpp"], ["-O2", "-D" + HOOK_GUARD], repo_sources=[])


def _codec(prop, tier):
    b = codec_binary()
    # the full 2^32 successor chains take ~10 s each on 16 cores, so both
    # tiers walk the complete domains ("thorough" in the runner's terms)
    args = ["--property", prop, "--tier", "thorough", "--threads", "16"]
    return engine_simple.run_protocol_check(
        prop, tier, [dict(binary=b, args=args, label="codec-" + prop, source="engines/enum/codec.cpp",
                          build="g++ -std=c++20 -O2 -mavx2 -DUNODB_DETAIL_VERIF_HOOKS -I/repo codec.cpp")],
        "exhaustive enumeration of finite encoder/decoder input domains against independently written reference orders:",
        ["64-bit integers, doubles, long texts and tuples are covered on the stated structured finite domains only",
         "texts contain no interior zero bytes (excluded by the statement)",
         "the reference orders (integer <, IEEE total order with NaNs unified, bytewise text order after normalisation) are trusted"],
        engine="enum")


@check("C11")
def c11(tier, args):
    return _codec("C11", tier)


@check("C12")
def c12(tier, args):
    return _codec("C12", tier)


@check("C15")
def c15(tier, args):
    return _codec("C15", tier)


def setup():
    """build every runner once for the current tree (content-keyed cache)"""
    engine_a.olc_binary(True)
    engine_a.qsbr_binary(True)
    engine_a.lock_binary(True)
    engine_a.mutex_binary()
    codec_binary()
    build(**wrap_spec(True))
    build(**wrap_spec(False))
    for v in ("asan", "fast"):
        engine_b.binaries(v)
    engine_b.keygen()
    return 0


def replay(path):
    payload = json.load(open(path))
    eng = payload.get("engine", "")
    if eng.startswith("sched/"):
        import tempfile
        binary = engine_a.binary_for(payload["scenario"])
        tmp = tempfile.mkdtemp(prefix="verif-replay-")
        rc, res, se = engine_a.replay_once(binary, payload["scenario"], payload["choices"], tmp, "r")
        print("exit status:", rc)
        print(se[-3000:])
        if res is not None:
            for v in res["violations"]:
                rp = payload.get("reported_property") if v["property"] == payload.get("property") else None
                print("VIOLATION property=%s replay=%s" % (rp or v["property"], path))
                print("  ", v["what"])
            return 1 if res["violations"] else 0
        if rc in (40, 41, 43, 44) or (isinstance(rc, int) and rc < 0):
            print("VIOLATION property=%s replay=%s" % (payload.get("reported_property") or payload.get("property"), path))
            return 1
        return 3
    if eng in ("enum", "wrap", "seqmc"):
        b = build(**payload["build_spec"]) if payload.get("build_spec") else codec_binary()
        r = subprocess.run([b] + payload["args"] + ["--replay-arg", payload["replay_arg"], "--out", "/dev/stdout"],
                           capture_output=True, text=True)
        print(r.stdout[-4000:])
        try:
            res = json.loads(r.stdout)
        except ValueError:
            print("exit status:", r.returncode, r.stderr[-2000:])
            if payload.get("exit_status") is not None and r.returncode == payload["exit_status"]:
                print("VIOLATION property=%s replay=%s" % (payload["property"], path))
                return 1
            return 3
        for v in res.get("violations", []):
            print("VIOLATION property=%s replay=%s" % (v.get("property", payload["property"]), path))
        return 1 if res.get("violations") else 0
    log("unknown engine in replay file:", eng)
    return 3
