"""Driver side of engine B (explicit-state search over the real index)."""
import os

import engine_simple
import universes
from vlib import HOOK_GUARD, build, build_many, CONFIG_DEFAULT

INDEXES = ("db", "mutex", "olc")
ONLY = {"db": "-DSEQMC_ONLY_DB", "mutex": "-DSEQMC_ONLY_MUTEX", "olc": "-DSEQMC_ONLY_OLC"}

VARIANTS = {
    # release-like with AddressSanitizer: dangling views, out-of-bounds
    "asan": ["-O1", "-DNDEBUG", "-D" + HOOK_GUARD, "-fsanitize=address", "-fno-omit-frame-pointer"],
    # release-like, optimised, for the big scan sweeps
    "fast": ["-O2", "-DNDEBUG", "-D" + HOOK_GUARD],
    # assertion-enabled (the library's allocation failure injector exists only here)
    "dbg": ["-O1", "-D" + HOOK_GUARD],
}
ASAN_ENV = {"ASAN_OPTIONS": "detect_leaks=0:abort_on_error=0:exitcode=43:allocator_may_return_null=1"}


def spec(variant, index, config=None, tag=""):
    return dict(name="seqmc_%s_%s%s" % (variant, index, tag), sources=["engines/seqmc/seqmc.cpp"],
                flags=VARIANTS[variant] + [ONLY[index]], config=config)


def binaries(variant, config=None, tag=""):
    paths = build_many([spec(variant, i, config, tag) for i in INDEXES])
    return dict(zip(INDEXES, paths))


def keygen():
    return build("keygen", ["engines/seqmc/keygen.cpp"], ["-O1", "-DNDEBUG"], repo_sources=[])


def all_universes(tier, kinds=("u64", "kv"), deep=False):
    us = []
    if "u64" in kinds:
        us += universes.u64_universes()
    if "kv" in kinds:
        us += universes.kv_universes(keygen())
    us = universes.for_tier(us, tier)
    return [u for u in us if bool(u["deep"]) == deep]


def uni_args(u, index):
    a = ["--id", u["id"], "--index", index, "--key", u["kind"], "--base", ",".join(u["base"]), "--delta", ",".join(u["delta"])]
    if u["probes"]:
        a += ["--probes", ",".join(u["probes"])]
    if u["variants"]:
        a += ["--variants", ",".join(str(v) for v in u["variants"])]
    if u.get("vlens"):
        a += ["--vlens", ",".join(str(v) for v in u["vlens"])]
    # variable-length byte-string universes: bounds must stay inside the encoder's prefix-free set
    lens = {len(k) for k in u["base"] + u["delta"] + u["probes"]}
    if u["kind"] == "kv" and len(lens) > 1:
        a += ["--simple-bounds", "1"]
    if u.get("full_prefix_word"):
        a += ["--full-prefix-word", "1"]
    return a


def runs_for(us, bins, extra_args, variant, indexes=INDEXES, config_label=""):
    runs = []
    for u in us:
        for i in indexes:
            runs.append(dict(binary=bins[i], args=uni_args(u, i) + extra_args, label="%s/%s/%s%s" % (u["id"], i, u["kind"], config_label),
                             env=ASAN_ENV, parallel=16, source="engines/seqmc/seqmc.cpp",
                             build_spec=spec(variant, i), timeout=7200))
    return runs
