"""Driver side of engine A (preemption-bounded exploration of real threads)."""
import json
import os
import shutil
import struct
import tempfile
import time

from vlib import (BUILD, HOOK_GUARD, NPROC, Report, build, log, run_jobs, write_evidence)

FATAL = {40: ("C14", "deadlock"), 41: ("C14", "livelock"), 43: ("C04", "sanitizer"), 44: (None, "oracle")}

ASAN_ENV = {"ASAN_OPTIONS": "exitcode=43:detect_leaks=0:abort_on_error=0:allocator_may_return_null=1:detect_stack_use_after_return=0"}


def olc_flags(asan=True):
    return ["-O1", "-DNDEBUG", "-D" + HOOK_GUARD] + (["-fsanitize=address", "-fno-omit-frame-pointer"] if asan else [])


def olc_binary(asan=True):
    return build("olc_runner" + ("_asan" if asan else ""), ["engines/sched/olc_runner.cpp"], olc_flags(asan))


def qsbr_binary(asan=True):
    return build("qsbr_runner" + ("_asan" if asan else ""), ["engines/sched/qsbr_runner.cpp"], olc_flags(asan),
                 repo_sources=["qsbr.cpp", "qsbr_ptr.cpp"])


def lock_binary(asan=True):
    return build("lock_runner" + ("_asan" if asan else ""), ["engines/sched/lock_runner.cpp"], olc_flags(asan), repo_sources=[])


def mutex_binary(asan=True):
    # defining pthread_mutex_lock in the executable does not combine with libasan's start-up: no sanitizer here
    return build("mutex_runner", ["engines/sched/mutex_runner.cpp"], olc_flags(False), repo_sources=["art_internal.cpp"])


def binary_for(sc):
    return {"olc": olc_binary, "qsbr": qsbr_binary, "lock": lock_binary, "mutex": mutex_binary}[sc.get("runner", "olc")](True)


def read_progress(path):
    try:
        data = open(path, "rb").read()
    except OSError:
        return None
    if len(data) < 544 or data[:7] != b"VPROG01":
        return None
    executions, points, verdict, nchoices = struct.unpack_from("<QQII", data, 8)
    what = data[32:288].split(b"\0")[0].decode(errors="replace")
    choices = list(data[544:544 + nchoices])
    return dict(executions=executions, points=points, verdict=verdict, what=what,
                choices=".".join(str(c) for c in choices))


def scenario_args(sc):
    if sc.get("runner", "olc") == "qsbr":
        a = ["--id", sc["id"]]
        for t in sc["threads"]:
            a += ["--thread", t if t else "-"]
    elif sc.get("runner") in ("lock", "mutex"):
        a = ["--id", sc["id"]]
        if sc.get("init"):
            a += ["--init", ",".join(sc["init"])]
        for t in sc["threads"]:
            a += ["--thread", ",".join(t)]
        if sc.get("closure"):
            a += ["--closure"]
    else:
        a = ["--id", sc["id"], "--init", ",".join(sc["init"])]
        for t in sc["threads"]:
            a += ["--thread", ";".join(t)]
    if sc.get("delay_bounded"):
        a += ["--delay-bounded"]
    return a


def classify_fatal(rc, what):
    """-> (property, signature)"""
    if rc in (40, 41):
        return "C14", "C14/" + FATAL[rc][1]
    if rc == 44:
        # "oracle C04: text"
        prop = "C04"
        if what.startswith("oracle C") and ":" in what:
            prop = what.split()[1].rstrip(":")
        return prop, prop + "/oracle-fatal/" + what.split(":", 1)[-1].strip()[:40].replace(" ", "-")
    if rc == 43:
        return "C04", "C04/sanitizer"
    if isinstance(rc, int) and rc < 0:
        return "C04", "C04/signal%d" % -rc
    return None, None


def replay_once(binary, sc, choices, tmpdir, tag):
    out = os.path.join(tmpdir, "replay-%s.json" % tag)
    prog = os.path.join(tmpdir, "replay-%s.prog" % tag)
    cmd = [binary] + scenario_args(sc) + ["--replay", choices, "--out", out, "--progress", prog]
    (j, rc, so, se), = run_jobs([dict(cmd=cmd, env=ASAN_ENV, timeout=120)], nproc=1)
    res = None
    if rc == 0 and os.path.exists(out):
        res = json.load(open(out))
    return rc, res, se


def confirm(binary, sc, choices, want_prop, want_sig_prefix, want_rc, tmpdir):
    """a violation is believed only if two fresh replays fail identically"""
    for k in range(2):
        rc, res, se = replay_once(binary, sc, choices, tmpdir, "c%d" % k)
        if want_rc is not None:
            if rc != want_rc:
                return False, "replay %d ended with %r instead of %r" % (k, rc, want_rc)
        else:
            if rc != 0 or res is None:
                return False, "replay %d ended with %r" % (k, rc)
            if not any(v["property"] == want_prop and v["signature"].startswith(want_sig_prefix) for v in res["violations"]):
                return False, "replay %d did not reproduce %s" % (k, want_sig_prefix)
    return True, ""


def olc_debug_binary():
    """assertion-enabled OLC runner (no NDEBUG): library assertions are live, an abort is a C16 violation"""
    return build("olc_runner_dbg", ["engines/sched/olc_runner.cpp"], ["-O1", "-D" + HOOK_GUARD, "-fsanitize=address", "-fno-omit-frame-pointer"])


def run_scenarios(prop, tier, scenarios, deadline_s, runner="olc", extra_assumptions=None, rule=None, assumptions=None,
                  finish=True, binary=None, fatal_property=None, report_as=None):
    """report_as: {property the runner's oracle names: property to report it under} - for program families in which an
    oracle's verdict is, by construction of the family, a violation of another property's clause"""
    report_as = report_as or {}
    t0 = time.time()
    if binary is None:
        binary = binary_for(scenarios[0]) if scenarios else olc_binary(True)
    engine_name = "sched/" + (scenarios[0].get("runner", "olc") if scenarios else "olc")
    tmpdir = tempfile.mkdtemp(prefix="verif-a-", dir=os.path.join(BUILD))
    report = Report(prop)
    jobs = []
    for sc in scenarios:
        shards = sc.get("shards", 1)
        for sh in range(shards):
            tag = "%s.%d" % (sc["id"], sh)
            out = os.path.join(tmpdir, "%d.json" % len(jobs))
            prog = os.path.join(tmpdir, "%d.prog" % len(jobs))
            cmd = [binary] + scenario_args(sc) + ["--bound", str(sc["bound"]), "--shard", "%d/%d" % (sh, shards),
                                                  "--out", out, "--progress", prog]
            jobs.append(dict(cmd=cmd, env=ASAN_ENV, sc=sc, out=out, prog=prog, tag=tag, timeout=3600))
    log("%s %s: %d scenarios, %d jobs" % (prop, tier, len(scenarios), len(jobs)))
    results = run_jobs(jobs, deadline=t0 + deadline_s)
    agg = dict(executions=0, points=0, tree_nodes=0, overlapping=0, outcomes=0, frees=0, scen_done=0, scen_skipped=0,
               incomplete=0, by_pre=[0] * 16, max_trace=0, violations_total=0, one_outcome=0)
    bounds = {}
    samples = []
    for (j, rc, so, se) in results:
        sc = j["sc"]
        if rc is None:
            agg["scen_skipped"] += 1
            continue
        if rc == 0 and os.path.exists(j["out"]):
            r = json.load(open(j["out"]))
            agg["executions"] += r["executions"]
            agg["points"] += r["points"]
            agg["tree_nodes"] += r["tree_nodes"]
            agg["overlapping"] += r["overlapping_outcomes"]
            agg["outcomes"] += r["distinct_outcomes"]
            agg["frees"] += r["frees_in_concurrent_phase"]
            agg["max_trace"] = max(agg["max_trace"], r["max_trace"])
            agg["violations_total"] += r["violations_total"]
            if r["distinct_outcomes"] <= 1:
                agg["one_outcome"] += 1
            for i, c in enumerate(r["by_preemptions"]):
                agg["by_pre"][i] += c
            if r["complete"]:
                agg["scen_done"] += 1
                b = bounds.setdefault(sc["bound"], 0)
                bounds[sc["bound"]] = b + 1
            else:
                agg["incomplete"] += 1
            if len(samples) < 3 and r["samples"]:
                samples.append(dict(scenario=sc["id"], init=sc.get("init"), threads=sc["threads"], bound=sc["bound"],
                                    schedule_and_events=r["samples"][0][:1500]))
            seen_sig = set()
            for v in r["violations"]:
                if (v["property"], v["signature"]) in seen_sig:
                    continue
                seen_sig.add((v["property"], v["signature"]))
                ok, why = confirm(binary, sc, v["choices"], v["property"], v["signature"], None, tmpdir)
                if not ok:
                    report.infra_errors.append("unconfirmed violation in %s: %s" % (sc["id"], why))
                    continue
                payload = dict(engine=engine_name, scenario={k: sc[k] for k in ("id", "init", "threads", "runner", "delay_bounded", "closure") if k in sc},
                               choices=v["choices"], preemptions=v["preemptions"], property=v["property"],
                               signature=v["signature"], what=v["what"], build_flags=olc_flags(True))
                if v["property"] in report_as:
                    payload["reported_property"] = report_as[v["property"]]
                report.violation(report_as.get(v["property"], v["property"]), v["signature"], v["what"], payload, sc["id"])
        else:
            pr = read_progress(j["prog"])
            vprop, vsig = classify_fatal(rc, pr["what"] if pr else "")
            if fatal_property and (rc == -6 or rc == 134):
                # assertion-enabled runner: the library aborted
                vprop, vsig = fatal_property, fatal_property + "/assertion-abort"
            if vprop is None or pr is None:
                report.infra_errors.append("runner failed on %s: rc=%r %s" % (j["tag"], rc, se[-500:]))
                continue
            agg["executions"] += pr["executions"]
            ok, why = confirm(binary, sc, pr["choices"], vprop, vsig, rc, tmpdir)
            if not ok:
                report.infra_errors.append("unconfirmed fatal verdict in %s (rc=%r, %s): %s" % (sc["id"], rc, pr["what"], why))
                continue
            what = pr["what"] or ("runner ended with status %r: %s" % (rc, se[-300:]))
            payload = dict(engine=engine_name, scenario={k: sc[k] for k in ("id", "init", "threads", "runner", "delay_bounded", "closure") if k in sc},
                           choices=pr["choices"], property=vprop, signature=vsig, what=what, exit_status=rc,
                           stderr_tail=se[-1500:], build_flags=olc_flags(True))
            agg["violations_total"] += 1
            if vprop in report_as:
                payload["reported_property"] = report_as[vprop]
            report.violation(report_as.get(vprop, vprop), vsig, what, payload, sc["id"])
    shutil.rmtree(tmpdir, ignore_errors=True)
    wall = time.time() - t0
    exhaustive = agg["scen_skipped"] == 0 and agg["incomplete"] == 0 and not report.infra_errors
    if not samples:
        samples = [dict(scenario=s["id"], init=s.get("init"), threads=s["threads"], bound=s["bound"]) for s in scenarios[:3]]
    coverage = dict(
        states=max(agg["tree_nodes"], 1), transitions=max(agg["points"], 1),
        traces_validated_against_impl=agg["executions"], evaluations=max(agg["executions"], 1),
        distinct_nontrivial=agg["overlapping"],
        rule=rule or "every schedule of each scenario (2-3 real threads on the real olc_db) with at most `bound` preemptions, "
             "every hooked atomic access a scheduling point; non-trivial = distinct (scenario, observed results) pairs in "
             "which operations of two threads overlapped in the global stamp order",
        samples=samples, exhaustive=exhaustive,
        scenarios=len(scenarios), scenarios_completed=agg["scen_done"], scenarios_skipped_deadline=agg["scen_skipped"],
        scenarios_cut_by_cap=agg["incomplete"], scenarios_by_completed_bound={str(k): v for k, v in sorted(bounds.items())},
        executions_by_preemptions=agg["by_pre"][:6], distinct_outcomes=agg["outcomes"],
        scenarios_with_single_outcome=agg["one_outcome"], frees_during_concurrent_phase=agg["frees"],
        max_branching_points_per_execution=agg["max_trace"], oracle_violations_seen=agg["violations_total"])
    assumptions = assumptions or [
        "sequentially consistent interleavings only; compare_exchange_weak treated as strong (x86)",
        "plain (non-atomic) accesses are not scheduling points; AddressSanitizer is active on all of them",
        "uint64 keys; 2-3 threads, 1-6 operations each; preemption bound per scenario as reported",
        "replay determinism: every violation re-executed twice from its schedule before being reported",
    ]
    assumptions = assumptions + (extra_assumptions or [])
    nviol = len(report.violations)
    log("%s %s: %d executions, %d points, %.1fs, %d violation(s), exhaustive=%s" %
        (prop, tier, agg["executions"], agg["points"], wall, nviol, exhaustive))
    if not finish:
        return report, coverage, assumptions
    write_evidence(prop, tier, "model_checking", coverage, wall, nviol, assumptions)
    return report.finish()
