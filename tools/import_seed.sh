#!/bin/bash
# usage: import_seed.sh Cxx  -- copies /tmp/seed/Cxx/seed_out/{mutantN.diff,demoN.cpp,NOTES.md} into seeded/Cxx-mN/
p=$1
for n in 1 2; do
  src=${SEED_ROOT:-/tmp/seed}/$p/seed_out
  [ -f $src/mutant$n.diff ] || continue
  d=/verif/seeded/${SEED_PREFIX}$p-m$n
  mkdir -p $d
  cp $src/mutant$n.diff $d/patch.diff
  [ -f $src/demo$n.cpp ] && cp $src/demo$n.cpp $d/demo.cpp
  [ -f $src/NOTES.md ] && cp $src/NOTES.md $d/NOTES.seeder.md
  echo imported $d
done
