#!/usr/bin/env python3
"""Writes seeded/<id>/meta.json from the hand-written descriptions below plus the machine-written confirm.json (suite and
demonstration re-run by us in the seed's scratch worktree) and runs.jsonl (our checks run against the change in /repo)."""
import json
import os

HERE = os.path.dirname(os.path.dirname(os.path.abspath(__file__)))

D = {
 # id: (property, origin, one-line change, what it needs to manifest)
 "own-revert-c03-lost-read": ("C03", "own (revert of fix ef1fd21)", "inode_4 collapse rewrites the remaining child's prefix without locking it", "one preemption of a get between consuming the parent's prefix and reading the child's, while a sibling removal collapses the parent"),
 "own-revert-seek-falloff": ("C02", "own (revert of fix 797b61d)", "seek pops the parent entry and descends through the wrong child when the bound falls off an inner node", "scan bound whose next key byte is above/below every child of a node below the root; concurrent: re-seek after the current key was removed"),
 "own-revert-qsbr-unregister": ("C05", "own (revert of fix 1c7c89d)", "unregister_thread ages orphans before a CAS that may fail", "4 threads, 2 scheduling deviations: holder, retirer that exits, leaver whose CAS loses to a joiner"),
 "own-revert-keyview-cmp": ("C02", "own (revert of fix 32aa429)", "key_view art keys compared by span object", "scan_range on byte-string keys (any)"),
 "own-revert-try-seek-unlock": ("C16", "own (revert of fix 0abf858)", "try_seek leaks the debug read lock count of inner nodes", "assertion-enabled build: scan_from through an inner node, then a removal that frees it"),
 "C01-m1": ("C01", "independent seeder", "key_prefix::prepend no longer masks the child's own prefix bytes (stale byte ORed into the length)", "collapse of an inode_4 into an inner node created by a leaf split, first key below has a byte >= 8 at depth+7"),
 "C01-m2": ("C01", "independent seeder", "prefix-split init files the new leaf under key byte [prefix length] instead of [depth + shared length]", "prefix split of an inner node below the root (tree >= 3 levels, diverging inside a non-root prefix)"),
 "C02-m1": ("C02", "independent seeder", "inode_48::gte_key_byte scans 48 instead of 256 index entries", "forward seek with a non-stored bound that leaves the tree at an inode_48 whose next child byte is >= 0x30"),
 "C02-m2": ("C02", "independent seeder", "OLC try_seek: reverse seek that diverges inside a non-root node's prefix with a smaller byte returns end()", "olc_db only, reverse scan_from/scan_range, bound diverging inside the prefix of a node below the root"),
 "C03-m1": ("C03", "independent seeder", "add_or_choose_subtree drops the parent validation on the add-to-non-full path", "insert into a non-full inode racing with a prefix split above it (or collapse of its parent), key bytes such that the cut prefix still matches"),
 "C03-m2": ("C03", "independent seeder", "try_get returns 'absent' without validating the node when find_child finds nothing", "get suspended between the key-bytes load and the children_count load of an inode_4 while a lower sibling is removed"),
 "C04-m1": ("C04", "independent seeder", "orphan_pending_requests files current-interval requests on the previous-interval orphan list", ">= 3 threads: writer retires and leaves while not last in the epoch, reader that quiesced before still holds the pointer, a third thread completes the epoch"),
 "C04-m2": ("C04", "independent seeder", "last-in-epoch unregistration decides single-thread mode by the threads that stay (frees current orphans at once)", "3 threads: scanner/reader holds a view, writer removes and leaves while not last, third thread leaves as last of the epoch leaving exactly one registered thread"),
 "C04-m3": ("C04", "independent seeder (extra)", "16 -> 48 growth frees the old inode_16 at once instead of through QSBR", "olc_db: reader holding a pointer to an inode_16 while a concurrent insert adds its 17th child"),
 "C05-m1": ("C05", "independent seeder", "same change as C04-m2, found independently", "3 threads, no race: X quiesces and takes a reference, A retires and exits while not last, B exits without ever quiescing with exactly two registered"),
 "C05-m2": ("C05", "independent seeder", "register_thread fast path taken for old_thread_count <= 1 (newcomer joins the previous epoch of a sole thread that is mid epoch change)", "sole thread stalled between fetch_sub and CAS of change_epoch while two threads start, one retires, one takes a reference"),
 "C06-m1": ("C06", "independent seeder", "orphan list publication by CAS-retry loop that overwrites a concurrently pushed head (node lost)", "a leaving thread pushes its previous-interval requests between the epoch changer's take and CAS"),
 "C06-m2": ("C06", "independent seeder", "on_next_epoch_deallocate re-enters the 'first request of a new epoch' branch (later requests dropped)", "epoch advanced by another thread since the requester's last quiescent state, then >= 2 requests before its next quiescent state"),
 "C07-m1": ("C07", "independent seeder", "try_read_lock tests is_obsolete only on the first load, then spins only while write-locked", "reader spinning on a writer that finishes with unlock_and_obsolete"),
 "C07-m2": ("C07", "independent seeder", "write_unlock_and_obsolete goes through a free word (unlock, then store obsolete)", "second thread opens and upgrades between the two stores"),
 "C08-m1": ("C08", "independent seeder", "remove dispatcher marked noexcept", "remove that shrinks an I16/I48/I256 at minimum size with its single allocation failing: std::terminate"),
 "C08-m2": ("C08", "independent seeder", "qsbr_per_thread member order changed so that register_thread runs before the two allocating initialisers", "qsbr_thread start whose 2nd or 3rd allocation fails: thread stays registered"),
 "C09-m1": ("C09", "independent seeder", "try_seek ignores the result of the node validation on the forward fall-off path", "forward seek for a byte above an insert in progress in the same node (keys shifted, count not yet published)"),
 "C09-m2": ("C09", "independent seeder", "next() always steps after the re-seek, also when the current key has vanished", "forward scan whose current key is removed between delivery and the step"),
 "C10-m1": ("C10", "independent seeder", "inode_48::delete_subtree scans only the first children_count slots", "node with >= 18 children, removal below the top slot, then clear() or destruction"),
 "C10-m2": ("C10", "independent seeder", "growth counter bumped right after the speculative node allocation, before the lock upgrades", "olc_db: insert into a full inode whose upgrade fails because another thread wrote the node or its parent"),
 "C11-m1": ("C11", "independent seeder", "NaN detection by bit pattern that requires the quiet bit", "signalling NaN input"),
 "C11-m2": ("C11", "independent seeder", "text truncation length narrowed to 16 bits before the comparison with maxlen", "text of >= 65536 bytes"),
 "C12-m1": ("C12", "independent seeder", "encode(uint8) without ensure_available", "8-bit component starting exactly at offset 256 (512, 1024) of a multi-component key"),
 "C12-m2": ("C12", "independent seeder", "isnan/isinf merged into !isfinite with signbit tested first", "NaN with the sign bit set"),
 "C13-m1": ("C13", "independent seeder", "get releases the mutex when the found value is empty", "entry with a zero-length value"),
 "C13-m2": ("C13", "independent seeder", "clear() takes the mutex with an unnamed temporary guard", "any operation starting while clear() tears the tree down"),
 "C15-m1": ("C15", "independent seeder", "encode_text strips trailing zeros before truncating", "text longer than maxlen with 0x00 right before the cut and a non-zero byte after it"),
 "C15-m2": ("C15", "independent seeder", "trailing pad stripped in place in the encoder buffer with the buffer start as lower bound", "empty/all-zero text following a component whose encoding ends in 0x00"),
 "C16-m1": ("C16", "independent seeder", "SSE4.1-only inode_48 free-slot search by popcount", "-msse4.1 build, node with 17-48 children, removal leaving a hole below a taken slot, then insert"),
 "C16-m2": ("C16", "independent seeder", "failed lock upgrade no longer decrements the debug read lock count", "assertion-enabled build under concurrency: failed upgrade on a node that is later freed"),
 "C17-m1": ("C17", "independent seeder", "qsbr_ptr move assignment skipped when both wrap the same address", "two distinct wrappers on one address, one move-assigned from the other"),
 "C17-m2": ("C17", "independent seeder", "unregister_active_ptr erases every registration of the address", "assertion build, two live wrappers on one address, one goes away"),
 "own-revert-prefix-snapshot": ("C16", "own (revert of fix 3860abe)", "try_get/try_insert/try_remove read the key prefix word twice (length and bytes separately)", "assertion-enabled build: a reader between the two loads while a collapse or prefix split rewrites the word in place"),
 "R2-C01-m1": ("C01", "independent seeder, round 2", "key_prefix::prepend shifts the whole child word instead of its masked prefix bytes (stale bytes and the length byte shifted into the new prefix)", "inode_4 collapse into a child whose prefix word has non-zero bytes beyond its length"),
 "R2-C01-m2": ("C01", "independent seeder, round 2", "inode_4 collapse skips the prefix merge when the collapsing node has an empty prefix (the key byte of the remaining child is dropped)", "collapse of an inode_4 with zero-length prefix into an inner child"),
 "R2-C02-m1": ("C02", "independent seeder, round 2", "inode_256::gte_key_byte never looks at child 0xFF", "forward seek that must land on the child under byte 0xFF of an inode_256"),
 "R2-C02-m2": ("C02", "independent seeder, round 2", "seek compares key and prefix as little-endian machine words instead of by the first differing byte", "bound diverging from a node prefix with >= 2 differing bytes whose word order disagrees with the byte order"),
 "R2-C03-m1": ("C03", "independent seeder, round 2", "growth publishes the larger node after the parent's write lock is released", "insert that grows a full non-root inode, preempted between the parent's unlock and the slot store, while another writer shifts the parent's children"),
 "R2-C03-m2": ("C03", "independent seeder, round 2", "remove's 'leaf holds another key' exit no longer validates the parent", "remove of a present key below a node whose prefix is cut in place by a concurrent prefix split; keys with runs of equal bytes so that the stale walk ends at an existing leaf"),
 "R2-C04-m1": ("C04", "independent seeder, round 2", "last-in-epoch unregistration handles orphans in the mode the system is entering (frees current-interval orphans at once when going 2 -> 1 threads)", "3 threads, two leavers in order: reader holds a view, writer retires and leaves while not last, third leaves as last of the epoch"),
 "R2-C04-m2": ("C04", "independent seeder, round 2", "register_thread during an epoch change returns at once instead of waiting for the new epoch", "thread start inside another thread's epoch change and its first quiescent state before the change is published: epoch advances twice"),
 "R2-C04-m3": ("C04", "independent seeder, round 2 (extra; its author saw the repository's own concurrency test fail once in ~150 runs with it)", "inode_4 collapse takes the reclaim handle of the node before the last lock upgrade, so a restart retires a node that stays linked", "remover whose upgrade of the remaining child fails"),
 "R2-C05-m1": ("C05", "independent seeder, round 2", "change_epoch computes the new state once, outside the CAS retry loop (stale thread count republished)", "a thread registers or leaves between the epoch changer's load and its CAS"),
 "R2-C05-m2": ("C05", "independent seeder, round 2", "unregister_thread decides single-thread mode from a fresh load instead of the state it is committing", "a joiner registers between the two loads of a leaver that was alone"),
 "R2-C06-m1": ("C06", "independent seeder, round 2", "unregister_thread's epoch-changing branch computes the new state once, outside the CAS retry loop", "another thread registers between the leaver's load and CAS: its registration is overwritten (thread count too low)"),
 "R2-C06-m2": ("C06", "independent seeder, round 2", "the tail walk of the orphan-list append fallback removed (appends behind the head node)", "two threads leave or pause with previous-interval requests during one epoch change of a third, between its take and its install CAS"),
 "R2-C07-m1": ("C07", "independent seeder, round 2", "try_read_lock recognises obsolete only on its first load, then waits only while write-locked", "reader arrives while a writer holds the lock and that writer finishes with unlock_and_obsolete"),
 "R2-C07-m2": ("C07", "independent seeder, round 2", "try_read_unlock validates with 'current word <= recorded word'", "section opened on a lock with >= 1 completed write, overlapping writer ends with unlock_and_obsolete (word 1), final validation by try_read_unlock"),
 "R2-C08-m1": ("C08", "independent seeder, round 2", "qsbr_per_thread members reordered so that registration precedes the allocating initialisers", "qsbr_thread start / qsbr_resume with a later allocation failing"),
 "R2-C08-m2": ("C08", "independent seeder, round 2", "on_next_epoch_deallocate ages the thread's requests before the (only) allocation of the request", "first request after an epoch change made by another thread, with that allocation failing"),
 "R2-C09-m1": ("C09", "independent seeder, round 2", "next() always steps after the re-seek, also when the current key has vanished", "forward scan whose current key is removed between delivery and the step"),
 "R2-C09-m2": ("C09", "independent seeder, round 2", "prior() re-seeks forward and steps back", "reverse scan whose current key is removed between delivery and the step"),
 "R2-C10-m1": ("C10", "independent seeder, round 2", "inode_48::delete_subtree scans only the first children_count slots", "inode_48 with a hole below a taken slot, then clear() or destruction"),
 "R2-C10-m2": ("C10", "independent seeder, round 2", "growth counter bumped before the lock upgrades", "olc_db: growing insert whose upgrade fails"),
 "R2-C11-m1": ("C11", "independent seeder, round 2", "text length narrowed to the 16-bit size type before the comparison with maxlen", "text of >= 65536 bytes"),
 "R2-C11-m2": ("C11", "independent seeder, round 2", "ensure_capacity copies the old content only when the old buffer was heap-allocated (first growth out of the inline buffer loses the encoded bytes)", "key that outgrows the 256-byte inline buffer"),
 "R2-C12-m1": ("C12", "independent seeder, round 2", "ensure_capacity frees the old buffer before copying from it", "second growth of an encoder buffer"),
 "R2-C12-m2": ("C12", "independent seeder, round 2", "encode(uint8) binds the destination reference before ensure_available", "8-bit component starting exactly at a capacity boundary"),
 "R2-C13-m1": ("C13", "independent seeder, round 2", "mutex_db::get looks up under one lock hold and pins the result under a second one", "get hit racing with a remove of the same key"),
 "R2-C13-m2": ("C13", "independent seeder, round 2", "mutex_db::empty() without the mutex", "empty() concurrent with a writer"),
 "R2-C14-m1": ("C14", "independent seeder, round 2", "inode_4 collapse read-locks the remaining child only after node and leaf were made obsolete", "second writer write-locks the remaining child between the remover's load of its lock word and its CAS: obsolete node stays linked"),
 "R2-C14-m2": ("C14", "independent seeder, round 2", "growth makes the full inode obsolete before allocating the larger one", "allocation failure at the larger-inode allocation of a growing insert: obsolete node stays linked, every later operation through it spins"),
 "R2-C15-m1": ("C15", "independent seeder, round 2", "text length narrowed to 16 bits before min(len, maxlen)", "text of >= 65536 bytes"),
 "R2-C15-m2": ("C15", "independent seeder, round 2", "NaN test moved under the 'sign bit clear' branch", "NaN with the sign bit set"),
 "R2-C16-m1": ("C16", "independent seeder, round 2", "olc iterator right-most descent validates the parent with check() instead of try_read_unlock() (debug read-lock count leaks)", "assertion-enabled build: reverse traversal over >= 2 inner levels, then a removal that frees an upper node"),
 "R2-C16-m2": ("C16", "independent seeder, round 2", "SSE4.1-only: inode_48 free-slot search starts at slot 16", "-msse4.1 build, inode_48 with slots 16..47 full and a hole below 16, then insert"),
 "R2-C17-m1": ("C17", "independent seeder, round 2", "unregister_active_ptr erases every registration of the address", "assertion build, two live wrappers on one address"),
 "R2-C17-m2": ("C17", "independent seeder, round 2", "qsbr_ptr_span copy takes size_bytes() as element count", "span of elements wider than one byte"),
 "R3-C01-m1": ("C01", "independent seeder, round 3", "key_prefix::make_u64 clamps the shift of the first key so that a full word can be loaded (wrong prefix for a leaf split inside the last 8 key bytes)", "leaf split below the root where the two keys share a further byte or new[depth] == old[0]; keys with all-zero leading bytes are immune"),
 "R3-C01-m2": ("C01", "independent seeder, round 3 (the C04 seeder of this round found the same change independently)", "256 -> 48 shrink disposes of the removed leaf with the immediate deleter instead of QSBR", "olc_db, second registered thread, view of a value whose removal shrinks an inode_256 with exactly 49 children"),
 "R3-C02-m1": ("C02", "independent seeder, round 3", "inode_16 insert position computed with a signed byte compare", "inode_16 receiving its 6th or later child with key bytes on both sides of 0x80; only scans see it"),
 "R3-C02-m2": ("C02", "independent seeder, round 3", "inode_48::lte_key_byte returns the slot index instead of the key byte", "reverse seek leaving the tree at an inode_48 whose slots are not in key-byte order"),
 "R3-C03-m1": ("C03", "independent seeder, round 3", "try_insert loads the root before opening the root pointer's read section", "one preemption between the two adjacent loads while another insert replaces the root (empty tree, root leaf split, root prefix split)"),
 "R3-C03-m2": ("C03", "independent seeder, round 3", "try_remove's 'key prefix does not match' exit no longer validates the parent", "remove below a node whose prefix is cut in place by a concurrent prefix split, prefix bytes pairwise distinct so that the stale walk sees a mismatch"),
 "R3-C04-m1": ("C04", "independent seeder, round 3", "256 -> 48 shrink frees the removed leaf at once (delete_subtree) instead of through QSBR", "reader holding a view while a remove shrinks an inode_256 with exactly 49 children"),
 "R3-C04-m2": ("C04", "independent seeder, round 3", "inode_256::for_each_child counts down from the 8-bit children_count (0 for a full node)", "clear() or destruction of an index with an inode_256 that has exactly 256 children: nothing below it is freed"),
 "R3-C05-m1": ("C05", "independent seeder, round 3", "ordinary unregistration rotates the leaver's request lists unconditionally (execute_previous_requests instead of advance_last_seen_epoch)", "thread pauses/exits, not last of the epoch, with current-epoch requests, after having seen the epoch; a holder that quiesced earlier"),
 "R3-C05-m2": ("C05", "independent seeder, round 3", "change_epoch ages the orphan lists after publishing the new epoch", "one preemption between the publishing CAS and the orphan exchange; meanwhile another thread retires in the new epoch and leaves"),
 "R3-C06-m1": ("C06", "independent seeder, round 3", "take_orphan_list as load + early return + store(nullptr) instead of exchange", "a leaver pushes its node between the epoch changer's load and store of a non-empty orphan list"),
 "R3-C06-m2": ("C06", "independent seeder, round 3 (same change as R2-C04-m2, found independently)", "register_thread during an epoch change returns at once", "thread start inside another thread's epoch change, quiescent state before the change is published: thread count corrupted"),
 "R3-C09-m1": ("C09", "independent seeder, round 3", "iterator stack cleared in last() before the retry loop instead of in every try_last()", "full reverse scan whose right-most path is >= 2 inodes deep, writer modifying the lower one in place during the descent: part of the tree delivered twice"),
 "R3-C09-m2": ("C09", "independent seeder, round 3", "try_seek's reverse sibling branch saves the parent's version for the node", "reverse seek with an absent bound; parent version ahead of the node's by exactly the number of in-place writes the node then receives"),
 "R3-C14-m1": ("C14", "independent seeder, round 3", "root-leaf removal makes the leaf obsolete before write-locking the root pointer", "another writer takes the root pointer lock in between: obsolete leaf stays the root, every later operation spins"),
 "R3-C14-m2": ("C14", "independent seeder, round 3", "shrink takes the parent's write lock only after the node was copied and made obsolete", "shrinking remove below a real parent inode that a sibling writer modifies in between"),
 "C14-m1": ("C14", "independent seeder", "inode_4 collapse read-locks and upgrades the remaining child only after node and leaf were made obsolete; a failed upgrade leaves an obsolete node linked", "remover and a second writer that write-locks the remaining child between the remover's load of its lock word and the remover's CAS (two preemptions): every later operation through that node restarts forever"),
 "C14-m2": ("C14", "independent seeder", "removed leaf made obsolete right after its upgrade, before the remaining child's upgrade", "one preemption of the remover between opening and upgrading the remaining child's section while another thread writes inside it: obsolete leaf stays linked"),
 "R4-C07-m1": ("C07", "independent seeder, round 4", "check() compares the lock words shifted right by one, dropping the obsolete bit", "a section opened at word 0 on a lock whose first-ever write is the one that makes it obsolete (0 -> 2 -> 1)"),
 "R4-C13-m1": ("C13", "independent seeder, round 4", "mutex_db::scan_from takes the mutex with try_to_lock and never checks owns_lock()", "two threads: one holds the index lock (pinned get, or a writer mid-call) at the instant the other calls scan_from"),
 "R4-C17-m1": ("C17", "independent seeder, round 4", "qsbr_ptr difference computed on uintptr_t and divided by sizeof(T)", "negative difference of wrappers over an element type wider than one byte"),
}


def main():
    rows = []
    for sid in sorted(os.listdir(os.path.join(HERE, "seeded"))):
        d = os.path.join(HERE, "seeded", sid)
        if not os.path.isdir(d) or sid not in D:
            continue
        prop, origin, change, needs = D[sid]
        meta = dict(id=sid, breaks_property=prop, origin=origin, change=change, needs_to_manifest=needs)
        cj = os.path.join(d, "confirm.json")
        if os.path.exists(cj):
            c = json.load(open(cj))
            meta["confirmed_by_us"] = dict(in_scratch_worktree=c.get("worktree"), suite_passes_with_change=c.get("suite_passes"),
                                           demo_exit_clean=c.get("demo_clean_exit"), demo_exit_with_change=c.get("demo_mutant_exit"),
                                           demo_cmd=c.get("demo_cmd"), confirmed=c.get("confirmed"))
        elif sid.startswith("own-"):
            meta["confirmed_by_us"] = dict(note="revert of a fix: commit; the pre-fix tree is the pinned tree, which passes the suite by definition")
        runs = []
        rj = os.path.join(d, "runs.jsonl")
        if os.path.exists(rj):
            for line in open(rj):
                for r in json.loads(line)["results"]:
                    runs.append(dict(check=r["check"], tier=r["tier"], only=r.get("only"), exit=r["exit"], wall_s=r["wall_s"],
                                     violations=r["violations"], violation_properties=r["violation_properties"]))
        meta["checks_run"] = runs
        caught = sorted({r["check"] for r in runs if r["exit"] == 1 and r["violations"] > 0})
        meta["caught_by"] = caught
        json.dump(meta, open(os.path.join(d, "meta.json"), "w"), indent=1)
        rows.append((sid, prop, ",".join(caught) or "-", change))
    for r in rows:
        print("%-28s %-4s %-12s %s" % r)


if __name__ == "__main__":
    main()
