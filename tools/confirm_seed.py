#!/usr/bin/env python3
"""Confirm a seeded change in its scratch worktree (never in /repo):
the demo passes on the clean tree; with the change applied the library builds,
the repository's test suite passes, and the demo fails.

usage: confirm_seed.py Cxx N     (worktree /tmp/seed/Cxx, files seed_out/mutantN.diff, demoN.cpp)
Writes /verif/seeded/Cxx-mN/confirm.json.
"""
import json
import os
import re
import subprocess
import sys
import time


def sh(cmd, cwd, timeout=1800):
    r = subprocess.run(cmd, shell=True, cwd=cwd, capture_output=True, text=True, timeout=timeout)
    return r.returncode, (r.stdout + r.stderr)


def demo_cmd(path):
    lines = open(path).read().split("\n")[:25]
    for i, l in enumerate(lines):
        if "g++ -std" in l or "clang++ -std" in l:
            cmd = l[l.index("g++ -std") if "g++ -std" in l else l.index("clang++ -std"):]
            if "clang++ -std" in l and "g++ -std" in l and l.index("clang++ -std") < l.index("g++ -std"):
                cmd = l[l.index("clang++ -std"):]
            # continuation lines of the same comment
            j = i + 1
            while cmd.rstrip().endswith("\\") and j < len(lines):
                cmd = cmd.rstrip()[:-1] + " " + lines[j].lstrip("/ ").strip()
                j += 1
            return cmd.strip().rstrip(")").strip()
    return None


def main():
    prop, n = sys.argv[1], sys.argv[2]
    root = os.environ.get("SEED_ROOT", "/tmp/seed")
    prefix = os.environ.get("SEED_PREFIX", "")
    wt = "%s/%s" % (root, prop)
    out = "/verif/seeded/%s%s-m%s" % (prefix, prop, n)
    patch = "%s/seed_out/mutant%s.diff" % (wt, n)
    demo = "%s/seed_out/demo%s.cpp" % (wt, n)
    res = dict(property=prop, mutant=int(n), worktree=wt, when=time.strftime("%Y-%m-%d %H:%M:%S"))
    sh("git checkout -- .", wt)
    cmd = demo_cmd(demo) if os.path.exists(demo) else None
    demo_cwd = wt
    if cmd:
        cmd = cmd.split("; echo")[0].strip()
        if "seed_out/demo" not in cmd:
            demo_cwd = os.path.join(wt, "seed_out")  # the command is meant to be run next to the demo
    res["demo_cmd"] = cmd
    res["demo_cwd"] = demo_cwd
    if cmd:
        rc, o = sh(cmd, demo_cwd)
        res["demo_clean_exit"] = rc
        res["demo_clean_tail"] = o[-400:]
    rc, o = sh("git apply --check %s && git apply %s" % (patch, patch), wt)
    res["applies"] = rc == 0
    try:
        if rc == 0:
            rc, o = sh("cmake --build _build -j8 2>&1 | tail -3", wt)
            res["build_tail"] = o[-300:]
            rc, o = sh("ctest --test-dir _build -j8 --timeout 900 2>&1 | tail -4", wt)
            res["ctest_tail"] = o[-300:]
            res["suite_passes"] = "100% tests passed" in o
            if cmd:
                rc, o = sh(cmd, demo_cwd)
                res["demo_mutant_exit"] = rc
                res["demo_mutant_tail"] = o[-600:]
    finally:
        sh("git checkout -- .", wt)
        sh("cmake --build _build -j8 2>&1 | tail -1", wt)
    res["confirmed"] = bool(res.get("applies") and res.get("suite_passes") and res.get("demo_clean_exit") == 0 and
                            res.get("demo_mutant_exit") not in (0, None))
    os.makedirs(out, exist_ok=True)
    json.dump(res, open(os.path.join(out, "confirm.json"), "w"), indent=1)
    print(prop, n, "confirmed" if res["confirmed"] else "NOT CONFIRMED",
          {k: res.get(k) for k in ("applies", "suite_passes", "demo_clean_exit", "demo_mutant_exit")})


if __name__ == "__main__":
    main()
