#!/bin/bash
# runs every quick tier once on the current tree and records wall time and exit status
cd "$(dirname "$0")/.."
for p in C01 C02 C03 C04 C05 C06 C07 C08 C09 C10 C11 C12 C13 C14 C15 C16 C17; do
  s=$(date +%s)
  ./check $p --tier quick > /tmp/quick_$p.log 2>&1
  rc=$?
  e=$(date +%s)
  echo "$p rc=$rc $((e-s))s $(grep -c '^VIOLATION' /tmp/quick_$p.log) violations | $(grep 'quick:' /tmp/quick_$p.log | tail -1 | cut -c1-150)"
done
