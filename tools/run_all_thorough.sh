#!/bin/bash
# runs every thorough tier once, end to end, and records wall time and exit status
cd "$(dirname "$0")/.."
for p in C15 C10 C13 C08 C01 C02 C17 C11 C12 C14 C07 C05 C06 C04 C09 C03 C16; do
  s=$(date +%s)
  ./check $p --tier thorough > thorough_$p.log 2>&1
  rc=$?
  e=$(date +%s)
  echo "$p rc=$rc $((e-s))s $(grep -c '^VIOLATION' thorough_$p.log) violations | $(grep 'thorough:' thorough_$p.log | tail -1 | cut -c1-160)"
done
