#!/usr/bin/env python3
"""Apply a seeded change to /repo, run the given checks, undo the change.

usage: try_seeded.py <patch.diff> [--checks C03,C04] [--tier quick] [--only substr] [--deadline s]

Prints per check: exit status, wall time, VIOLATION / KNOWN-FINDING lines.
/repo is always restored (git checkout -- .), also on interruption.
"""
import argparse
import json
import os
import subprocess
import sys
import time

VERIF = os.path.dirname(os.path.dirname(os.path.abspath(__file__)))


def sh(cmd, **kw):
    return subprocess.run(cmd, shell=True, capture_output=True, text=True, **kw)


def main():
    ap = argparse.ArgumentParser()
    ap.add_argument("patch")
    ap.add_argument("--checks", required=True)
    ap.add_argument("--tier", default="quick")
    ap.add_argument("--only", default=None)
    ap.add_argument("--deadline", default=None)
    ap.add_argument("--json", default=None, help="append the result to this json-lines file")
    args = ap.parse_args()
    args.patch = os.path.abspath(args.patch)
    st = sh("git -C /repo status --porcelain --untracked-files=no").stdout.strip()
    if st:
        print("refusing: /repo has uncommitted changes:\n" + st)
        return 2
    r = sh("git -C /repo apply --check %s" % args.patch)
    if r.returncode != 0:
        print("patch does not apply:", r.stderr)
        return 2
    results = []
    # the evidence files describe the unchanged tree: keep them out of the way while a seeded change is applied
    sh("rm -rf %s/build/evidence.bak && cp -r %s/evidence %s/build/evidence.bak" % (VERIF, VERIF, VERIF))
    try:
        sh("git -C /repo apply %s" % args.patch)
        for c in args.checks.split(","):
            cmd = "cd %s && ./check %s --tier %s" % (VERIF, c, args.tier)
            if args.only:
                cmd += " --only=%s" % args.only
            if args.deadline:
                cmd += " --deadline %s" % args.deadline
            t0 = time.time()
            r = sh(cmd)
            dt = time.time() - t0
            viol = [l for l in r.stdout.splitlines() if l.startswith("VIOLATION")]
            known = [l for l in r.stdout.splitlines() if l.startswith("KNOWN-FINDING")]
            props = sorted({l.split()[1] for l in viol})
            print("%s: exit=%d %.0fs violations=%d %s" % (c, r.returncode, dt, len(viol), " ".join(props)))
            for l in viol[:3]:
                print("   ", l)
            tail = [l for l in r.stderr.splitlines() if l.strip()]
            for l in tail[-4:]:
                print("    |", l[:260])
            results.append(dict(check=c, tier=args.tier, only=args.only, exit=r.returncode, wall_s=round(dt, 1), violations=len(viol),
                                violation_properties=props, first_violation=(viol[0] if viol else None),
                                stderr_tail=tail[-3:]))
    finally:
        sh("git -C /repo checkout -- .")
        sh("rm -rf %s/evidence && mv %s/build/evidence.bak %s/evidence" % (VERIF, VERIF, VERIF))
        # replays written while the change was applied are scratch
        sh("find %s/replays -name '*.json' -newer %s -delete" % (VERIF, args.patch))
    if args.json:
        with open(args.json, "a") as fh:
            fh.write(json.dumps(dict(patch=args.patch, results=results)) + "\n")
    st = sh("git -C /repo status --porcelain --untracked-files=no").stdout.strip()
    if st:
        print("WARNING: /repo not clean after restore:", st)
    return 0


if __name__ == "__main__":
    sys.exit(main())
