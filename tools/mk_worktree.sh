#!/bin/bash
# usage: mk_worktree.sh <dir>   -- scratch git worktree of /repo at HEAD, ready to configure and build the test suite
set -e
d="$1"
git -C /repo worktree add -f "$d" HEAD >/dev/null 2>&1
# googletest is a submodule whose files exist only in /repo's working directory
cp -r /repo/3rd_party/googletest/. "$d/3rd_party/googletest/"
echo "$d"
