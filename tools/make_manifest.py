#!/usr/bin/env python3
"""Source of truth for MANIFEST.json (run after changing the set of checks)."""
import json
import os
import subprocess

HERE = os.path.dirname(os.path.dirname(os.path.abspath(__file__)))
props = [json.loads(l) for l in open(os.path.join(HERE, "properties.jsonl"))]

SCHED = "sched"
CLAIMS = {
 "C01": ("seqmc", "explicit-state breadth-first search over the real index (state = physical tree dump), run to the fixpoint per key universe, against a std::map reference",
   "For every key universe (uint64 geometry G1-G4, byte strings of 1/3/8/12 bytes, encoder-built text and compound keys) and each of db, mutex_db, olc_db: every reachable implementation state and every transition of the alphabet {insert(k,v), remove(k), clear} over the delta keys is executed on a fresh real object and checked (result, stored content, get of every universe and probe key, empty, value views obtained before the operation re-read after it under AddressSanitizer). Because the search closes the state graph, the claim per universe is all finite operation sequences, not sequences up to a depth. The OLC clause about views (valid at least until the caller's next quiescent state) is checked by an engine-A part: 366 sequential programs (get, then a removal or restructuring operation by the same thread, then the view is re-read) next to an idle registered thread, on every base tree including all node-size boundaries.",
   "Universes are finite and designed (base + 5-8 delta keys; every structural event x node position); behaviour is assumed to be a function of the physical dump; stale prefix bytes and stale array entries are excluded from the state identity (argument in DESIGN.md section 3); deep shared prefixes (>= 8 bytes) are a recorded known finding."),
 "C02": ("seqmc", "explicit-state search over the real index + exhaustive scan enumeration (all bounds x directions x halting positions) on every state against a sorted-vector reference",
   "On every reachable implementation state of every universe and index class: scan fwd/rev with the visitor halting at every position, scan_from for every bound of the generated bound set (universe keys, +-1 neighbours, every byte position forced to 00/FF with the tail zeroed/filled) in both directions, scan_range over all ordered pairs of a reduced bound set, byte-string bounds in both buffer address orders; exact (key, value) sequence compared, no visitor call after it returned true.",
   "As C01; bounds come from the generated finite set; variable-length byte-string universes use universe keys and probes as bounds."),
 "C03": (SCHED, "exhaustive preemption-bounded schedule exploration of real threads + brute-force linearizability check",
   "Every interleaving (hooked atomic accesses as scheduling points) of ~2100 (quick) / ~3400 (thorough) generated 2-3 thread scenarios on the real olc_db with at most 1-3 preemptions is executed; for each execution the stamped call/return history and the final content are checked against all sequential orders of a std::map. Bounded model checking of the implementation itself: every explored trace is an implementation trace.",
   "Sequentially consistent interleavings only; uint64 keys; 2-3 threads with 1-2 point operations each; preemption bound per scenario recorded in the evidence; scheduler, hook placement and harness are trusted."),
 "C04": (SCHED, "exhaustive preemption-bounded schedule exploration with allocation-table, reachability and AddressSanitizer oracles",
   "Same exploration as C03/C09 on scenarios whose writers retire nodes, with quiescent states placed so that epochs really advance and memory is really freed while readers run; every hooked access is checked against the live-block table, every free against reachability from the root, every held value view is re-read before the holder's quiescent state, ASan watches all plain accesses, and after the drain live blocks must equal reachable nodes. Families: reader x writer with quiescent-state placements, reader x remover x idle leaver, reader x remover x thread joining during the epoch change (staged with barrier operations), writer x writer pairs, three-thread sets, and every node-size boundary (4/5, 16/17, 48/49, 256).",
   "Sequentially consistent interleavings; bounds as reported; ASan's shadow memory is trusted for plain accesses."),
 "C05": (SCHED, "exhaustive deviation-bounded schedule exploration of real threads driving the real QSBR + may-hold contract oracle",
   "All schedules (every QSBR atomic a scheduling point) of a 4-thread role family (holder / retirer / leaver / joiner, 22 program sets, delay bound 3 quick, 4 thorough) and of all 2-thread program sets over {quiescent, retire, pause, resume/start, exit} up to length 2 (3 thorough) with at most 3 (4) preemptions, a joiner family (a sole registered thread mid quiescent state while two others start) and a rounds family (holder x retirer x third thread staged through complete epoch changes by barrier operations) at bound 2 (3); at every free notification the object must not be in the may-hold set of any thread other than the requester.",
   "Sequentially consistent interleavings; programs and bounds as reported; the oracle is the QSBR contract on call/return events, independent of internals."),
 "C06": (SCHED, "exhaustive deviation-bounded schedule exploration + exactly-once / three-round / thread-count monitors",
   "All schedules of 3-thread program sets (length <= 2), of families in which threads exit or pause with pending requests while another thread changes the epoch (including two leavers inside one epoch change, staged with barrier operations) and of a retire-twice family, each followed by a deterministic drain (three rounds in which every registered thread quiesces, then all but one leave, then the survivor quiesces twice); monitors: every retired block freed exactly once, freed by the end of round three, nothing pending after the drain, and at every scheduling point with no start/exit/pause/resume in flight the reported thread count equals the driver's count.",
   "As C05."),
 "C08": ("seqmc", "explicit-state search + exhaustive fault-position enumeration (every k-th allocation of every allocating transition fails) with before/after state comparison",
   "Assertion-enabled build (the library's own allocation-failure injector): for every transition of the state graph of the universes that contain every allocation pattern, the allocations of the operation are counted and then, for each k, the k-th one is failed; std::bad_alloc must reach the caller and tree dump, full scans, statistics, live allocation set and locks must be unchanged, and the unarmed retry must give the reference result. Plus qsbr_resume and qsbr_thread construction (each allocation failed once), on_next_epoch_deallocate after every history over {request, own quiescent state, other thread's quiescent state} up to length 6 (9 thorough) with each allocation failed once and the complete per-thread QSBR state compared, and std::length_error for keys/values longer than UINT32_MAX.",
   "One fault per operation; failures inside std::stack growth of scans are outside; QSBR part covers the three entry points named in the statement."),
 "C09": (SCHED, "exhaustive preemption-bounded schedule exploration + interval/order/stable-key scan oracle",
   "One scanner (scan, scan_from, scan_range, both directions, with and without early halt) against one writer (thorough: two writers / two scanners) restructuring nodes on the scanner's stack; all schedules up to the bound; visited keys must be strictly monotone, inside the interval, carry a value the key held during the scan, contain every stable key and no stable-absent key.",
   "As C03; completeness is demanded only for keys that are provably stable by call/return stamps (conservative, never more than the statement)."),
 "C10": ("seqmc", "explicit-state search over the real index with canonical-radix-tree, statistics and allocator-accounting oracles on every state and transition",
   "On every state of every universe and index class: logical shape equals the canonical path-compressed radix tree computed independently from the reference key set (this is history independence: several implementation states per key set, one logical shape), node counts per class and reported memory use equal that tree's, bytes held per alloc/free hooks equal the reported use, zero after clear/destruction; per transition the growing/shrinking counter deltas equal the delta predicted from the canonical trees before/after. The concurrent clause (after a concurrent phase, once all threads quiesced) is checked in every engine-A execution of C03/C04/C09/C14.",
   "As C01."),
 "C14": (SCHED, "exhaustive preemption-bounded schedule exploration with deadlock/livelock verdicts and post-execution lock sweep",
   "Every pair of single writer operations on ten base trees plus three-writer, writer/writer two-operation and writer/scanner/writer scenarios explored under every schedule up to the bound; the scheduler reports a deadlock when no thread is enabled or the only enabled threads repeat an observation cycle over unchanged memory, a livelock when the step budget is exceeded; after each execution no reachable lock word may be locked and a single-threaded scheduled sweep over all keys must terminate with the right results. The same oracles are on in every C03/C04/C09 execution; the fault clause (no lock word, locked or obsolete, left reachable after a throwing operation; scans and retry terminate) is checked by engine B's fault enumeration on olc_db over the C08 universes, as part of this check.",
   "Fairness is modelled by run-to-completion after the preemption budget and round-robin at voluntary yields; bounds as reported."),
 "C16": ("seqmc", "the same explicit-state search executed in all 16 build configurations, transcripts compared; assertion aborts attributed to the executing history",
   "Engine B (complete scan bound set, scans also run on the very object that is then mutated) is built in {AVX2, SSE4.1} x {stats, no stats} x {assertions, NDEBUG} x {PAUSE, EMPTY} for db, mutex_db and olc_db; the search order is a function of what the implementation returns, so agreeing configurations produce identical transcripts (every result, scan output and shape), which are compared across the 16, counters across the 8 with statistics; every assertion-enabled process must terminate normally.",
   "Universes with keys of at most 8 bytes; memory use compared only within one layout class."),
 "C17": ("wrap", "explicit-state breadth-first search over the real qsbr_ptr / qsbr_ptr_span objects to the fixpoint, shadow raw-pointer model, fork-per-state liveness probes",
   "Abstract states of 2 pointer + 2 span slots (thorough 3 + 2) over two buffers; every constructor, assignment, arithmetic and comparison operator between distinct objects; after every transition all observers are compared with shadow raw pointers; in the assertion-enabled build the per-thread registry must equal the shadow multiset and quiescent/pause/resume in a forked child must abort iff a non-null wrapper is alive; NDEBUG build: same values, always accepted.",
   "Slot and buffer sizes as stated; self-assignment is outside the statement."),
}
for pid, txt in (("C11", "order preservation"), ("C12", "decode inverts encode, fixed sizes, encoder reuse/growth"), ("C15", "prefix-freedom, bounded reads and output size")):
    CLAIMS[pid] = ("enum", "exhaustive enumeration of finite input domains (complete 8/16/32-bit and float domains, structured 64-bit/double/text/tuple domains) against independent reference orders",
      "Engine C walks complete value domains: all 2^32 values of int32/uint32/float by successor chain, all 8/16-bit values, 8^8-alphabet and bit-pattern domains for 64-bit types and double, all texts up to length 6 over a 3-letter alphabet with padding plus texts around the maximum length (all pairs), full products of small component domains for 7 tuple schemas; checks " + txt + ". Finite-domain exhaustive check, no sampling.",
      "64-bit/double/long-text/tuple coverage is limited to the stated structured domains; reference orders are trusted.")

EXTRA = {}
try:
    exec(open(os.path.join(HERE, "tools", "manifest_extra.py")).read())
except FileNotFoundError:
    pass
CLAIMS.update(EXTRA)

checks = []
for pid in sorted(CLAIMS):
    eng, tech, text, note = CLAIMS[pid]
    checks.append(dict(property_id=pid, quick_cmd="./check %s --tier quick" % pid, thorough_cmd="./check %s --tier thorough" % pid,
                       evidence_file="/verif/evidence/%s.json" % pid, replay_cmd_template="./check replay {path}", engine=eng,
                       level_claimed=dict(category="model_checking", text=text, design_ref="DESIGN.md sections 2-5"),
                       level_note=note, technique=tech))
na = [dict(property_id=p["id"], reason="check not built yet in this round (planned, see DESIGN.md section 5)") for p in props if p["id"] not in CLAIMS]
hook_commit = subprocess.run(["git", "-C", "/repo", "log", "--format=%h", "--grep=verification hooks", "-1"], capture_output=True, text=True).stdout.strip()
m = dict(version=1, setup_cmd="./check setup",
  hooks=dict(guard="UNODB_DETAIL_VERIF_HOOKS",
     enable="checks compile their runners from /repo's working tree with -DUNODB_DETAIL_VERIF_HOOKS (g++ -std=c++20 -I/repo ...); the repository's own build never defines it",
     baseline_off_cmd="cmake --build /repo/_build -j16 && ctest --test-dir /repo/_build -j8 --timeout 900",
     source_commits=[hook_commit or "a5a71ed"], add_only=True),
  engines=[
    dict(name="sched", path="engines/sched", serves_properties=sorted(p for p, c in CLAIMS.items() if c[0] == "sched"), kind_free_text="cooperative futex scheduler over hooked atomic accesses + stateless deviation-bounded DFS explorer (closure mode with state fingerprints for the lock), in-process re-execution on the real olc_db / QSBR / optimistic_lock / mutex_db"),
    dict(name="seqmc", path="engines/seqmc", serves_properties=sorted(p for p, c in CLAIMS.items() if c[0] == "seqmc"), kind_free_text="explicit-state BFS over implementation states of the real index identified by a physical tree dump, fault and configuration-matrix modes"),
    dict(name="enum", path="engines/enum", serves_properties=sorted(p for p, c in CLAIMS.items() if c[0] == "enum"), kind_free_text="exhaustive enumeration of encoder/decoder input domains, 16 threads"),
    dict(name="wrap", path="engines/wrap", serves_properties=sorted(p for p, c in CLAIMS.items() if c[0] == "wrap"), kind_free_text="explicit-state BFS over real qsbr_ptr/qsbr_ptr_span objects with fork-per-state liveness probes")],
  checks=checks, not_applicable=na,
  notes="Model checking of the implementation itself (no separate model): every explored trace is an implementation trace. Violations are reported under the property whose oracle fired. See DESIGN.md; known findings in known_findings.jsonl.")
json.dump(m, open(os.path.join(HERE, "MANIFEST.json"), "w"), indent=1)
print("claimed:", " ".join(sorted(CLAIMS)), "| not claimed:", " ".join(n["property_id"] for n in na))
